From Turn Require Import Bytes Attrs BytesP.
From Coq Require Import ZifyN ZifyNat ZifyBool.
Ltac Zify.zify_post_hook ::= Z.div_mod_to_equations.
Open Scope N_scope.

(* ---------- round trips ---------- *)
Theorem channum_roundtrip n : n < 65536 -> dec_channum (enc_channum n) = AOk n.
Proof. intros H. unfold enc_channum, enc16. cbn [app dec_channum].
  rewrite be16_enc16 by apply u16_lt. rewrite u16_id; auto. Qed.

Theorem lifetime_roundtrip s : s < 4294967296 -> dec_lifetime (enc_lifetime s) = AOk s.
Proof. intros H. unfold enc_lifetime, enc32. cbn [dec_lifetime]. rewrite u32_id by auto.
  rewrite be32_enc32; auto. Qed.

Theorem connid_roundtrip s : s < 4294967296 -> dec_connid (enc_connid s) = AOk s.
Proof. intros H. unfold enc_connid, enc32. cbn [dec_connid]. rewrite u32_id by auto.
  rewrite be32_enc32; auto. Qed.

Theorem reqtrans_roundtrip p : p < 256 -> dec_reqtrans (enc_reqtrans p) = AOk p.
Proof. intros H. unfold enc_reqtrans. cbn [dec_reqtrans]. rewrite N.mod_small; auto. Qed.

Theorem reqfamily_roundtrip f : f = 1 \/ f = 2 -> dec_reqfamily (enc_reqfamily f) = AOk f.
Proof. intros [->| ->]; reflexivity. Qed.

Theorem reqfamily_bad_value f : f < 256 -> f <> 1 -> f <> 2 ->
  dec_reqfamily (enc_reqfamily f) = AErr EBadValue.
Proof. intros H H1 H2. unfold enc_reqfamily. cbn [dec_reqfamily]. rewrite N.mod_small by auto.
  destruct (N.eqb_spec f 1); [lia|]. destruct (N.eqb_spec f 2); [lia|]. reflexivity. Qed.

Theorem evenport_roundtrip r : dec_evenport (enc_evenport r) = AOk r.
Proof. destruct r; reflexivity. Qed.

Theorem token_roundtrip t : lenN t = 8 -> exists v, enc_token t = AOk v /\ dec_token v = AOk t.
Proof. intros H. exists t. unfold enc_token, dec_token. rewrite H. auto. Qed.

Theorem token_enc_wrong_size t : lenN t <> 8 -> enc_token t = AErr ESizeInvalid.
Proof. intros H. unfold enc_token. destruct (N.eqb_spec (lenN t) 8); congruence. Qed.

Theorem dontfrag_roundtrip : dec_dontfrag enc_dontfrag = AOk tt.
Proof. reflexivity. Qed.

Theorem data_roundtrip d : dec_data (enc_data d) = AOk d.
Proof. reflexivity. Qed.

(* ---------- wrong size: every length other than the defined one ---------- *)
Theorem channum_wrong_size v : length v <> 4%nat -> dec_channum v = AErr ESizeInvalid.
Proof. destruct v as [|a [|b [|c [|d [|e r]]]]]; cbn; congruence. Qed.
Theorem lifetime_wrong_size v : length v <> 4%nat -> dec_lifetime v = AErr ESizeInvalid.
Proof. destruct v as [|a [|b [|c [|d [|e r]]]]]; cbn; congruence. Qed.
Theorem connid_wrong_size v : length v <> 4%nat -> dec_connid v = AErr ESizeInvalid.
Proof. destruct v as [|a [|b [|c [|d [|e r]]]]]; cbn; congruence. Qed.
Theorem reqtrans_wrong_size v : length v <> 4%nat -> dec_reqtrans v = AErr ESizeInvalid.
Proof. destruct v as [|a [|b [|c [|d [|e r]]]]]; cbn; congruence. Qed.
Theorem reqfamily_wrong_size v : length v <> 4%nat -> dec_reqfamily v = AErr ESizeInvalid.
Proof. destruct v as [|a [|b [|c [|d [|e r]]]]]; cbn; congruence. Qed.
Theorem evenport_wrong_size v : length v <> 1%nat -> dec_evenport v = AErr ESizeInvalid.
Proof. destruct v as [|a [|b r]]; cbn; congruence. Qed.
Theorem token_wrong_size v : length v <> 8%nat -> dec_token v = AErr ESizeInvalid.
Proof. intros H. unfold dec_token, lenN. destruct (N.eqb_spec (N.of_nat (length v)) 8); [lia|reflexivity]. Qed.
Theorem dontfrag_wrong_size v : length v <> 0%nat -> dec_dontfrag v = AErr ESizeInvalid.
Proof. destruct v; cbn; congruence. Qed.

(* right-sized raw values decode to exactly the bytes present (no silently different value) *)
Theorem channum_right_size a b c d : dec_channum [a; b; c; d] = AOk (be16 a b).
Proof. reflexivity. Qed.
Theorem lifetime_right_size a b c d : dec_lifetime [a; b; c; d] = AOk (be32 a b c d).
Proof. reflexivity. Qed.
Theorem token_right_size v : length v = 8%nat -> dec_token v = AOk v.
Proof. intros H. unfold dec_token, lenN. rewrite H. reflexivity. Qed.
Theorem evenport_right_size a : dec_evenport [a] = AOk (negb (N.land a 255 =? 0)).
Proof. reflexivity. Qed.

(* ---------- XOR address ---------- *)
Lemma xor_bytes_length a b : length (xor_bytes a b) = Nat.min (length a) (length b).
Proof. revert b; induction a as [|x a IH]; destruct b; cbn; auto. Qed.

Lemma xor_bytes_invol a p : (length a <= length p)%nat -> xor_bytes (xor_bytes a p) p = a.
Proof.
  revert p; induction a as [|x a IH]; destruct p as [|y p]; cbn; intros H; auto; try lia.
  rewrite IH by lia. f_equal. rewrite N.lxor_assoc, N.lxor_nilpotent, N.lxor_0_r. reflexivity.
Qed.

Lemma lxor_invol a b : N.lxor (N.lxor a b) b = a.
Proof. rewrite N.lxor_assoc, N.lxor_nilpotent, N.lxor_0_r. reflexivity. Qed.

Lemma lxor_lt16 a b : a < 65536 -> b < 65536 -> N.lxor a b < 65536.
Proof.
  intros Ha Hb. destruct (N.eq_dec (N.lxor a b) 0) as [->|Hz]; [lia|].
  apply N.log2_lt_pow2 with (b := 16); [lia|].
  eapply N.le_lt_trans; [apply N.log2_lxor|].
  apply N.max_lub_lt.
  - destruct (N.eq_dec a 0) as [->|]; [cbn; lia|]. apply N.log2_lt_pow2; lia.
  - destruct (N.eq_dec b 0) as [->|]; [cbn; lia|]. apply N.log2_lt_pow2; lia.
Qed.

Lemma fill_to_exact n l : length l = n -> fill_to n l = l.
Proof. intros <-. unfold fill_to. rewrite Nat.sub_diag. cbn. apply app_nil_r. Qed.

Lemma xor_pad_length tid : length tid = 12%nat -> length (xor_pad tid) = 16%nat.
Proof. intros H. unfold xor_pad. rewrite app_length, H. reflexivity. Qed.

(* what AddToAs puts on the wire decodes to the same address (in canonical form:
   a 16-byte v4-mapped IP is returned as its 4-byte form, like ip.To4()) *)
Definition canon_ip (ip : bytes) : bytes := if is_v4_mapped ip then skipn 12 ip else ip.

Lemma dec_xoraddr_ok tid fam x p :
  length tid = 12%nat -> p < 65536 -> (fam = 1 \/ fam = 2) ->
  length x = (if (fam =? 2)%N then 16%nat else 4%nat) ->
  dec_xoraddr tid ([0; fam] ++ enc16 p ++ x) = AOk (xor_bytes x (xor_pad tid), N.lxor p 8466).
Proof.
  intros Ht Hp Hf Hl. pose proof (xor_pad_length tid Ht) as Hpad.
  destruct x as [|x0 x]; [destruct Hf; subst fam; discriminate Hl|].
  unfold enc16. cbn [app]. unfold dec_xoraddr, dec_xoraddr_gen.
  rewrite be16_enc16 by auto.
  assert (Hb : be16 0 fam = fam) by (unfold be16; lia). rewrite Hb.
  assert (Hor : (fam =? 1) || (fam =? 2) = true) by (destruct Hf; subst; reflexivity).
  rewrite Hor. cbn [negb]. rewrite Hl.
  rewrite Nat.ltb_irrefl, Nat.eqb_refl. cbn [andb negb].
  rewrite fill_to_exact; [reflexivity|].
  rewrite xor_bytes_length, Hl, Hpad. destruct Hf; subst; reflexivity.
Qed.

Theorem xoraddr_roundtrip tid ip port :
  length tid = 12%nat -> port < 65536 ->
  (length ip = 4%nat \/ length ip = 16%nat) ->
  exists v, enc_xoraddr tid ip port = AOk v /\ dec_xoraddr tid v = AOk (canon_ip ip, port).
Proof.
  intros Ht Hp Hl. pose proof (xor_pad_length tid Ht) as Hpad.
  assert (Hx : N.lxor port 8466 < 65536) by (apply lxor_lt16; lia).
  unfold enc_xoraddr, canon_ip, is_v4_mapped. destruct Hl as [Hl|Hl]; rewrite Hl; cbn [Nat.eqb andb].
  - eexists; split; [reflexivity|]. rewrite u16_id by auto.
    rewrite dec_xoraddr_ok; auto; [|rewrite xor_bytes_length, Hl, Hpad; reflexivity].
    rewrite xor_bytes_invol by lia. rewrite lxor_invol. reflexivity.
  - destruct (beqb (firstn 12 ip) v4_mapped_prefix) eqn:Hm.
    + eexists; split; [reflexivity|]. rewrite u16_id by auto.
      assert (Hs : length (skipn 12 ip) = 4%nat) by (rewrite skipn_length, Hl; reflexivity).
      rewrite dec_xoraddr_ok; auto; [|rewrite xor_bytes_length, Hs, Hpad; reflexivity].
      rewrite xor_bytes_invol by lia. rewrite lxor_invol. reflexivity.
    + eexists; split; [reflexivity|]. rewrite u16_id by auto.
      rewrite dec_xoraddr_ok; auto; [|rewrite xor_bytes_length, Hl, Hpad; reflexivity].
      rewrite xor_bytes_invol by lia. rewrite lxor_invol. reflexivity.
Qed.

(* wrong-sized address field or bad family: error, never a value *)
Theorem xoraddr_wrong_size tid v :
  (forall f0 f1 p0 p1 rest, v = f0 :: f1 :: p0 :: p1 :: rest ->
      (be16 f0 f1 = 1 -> length rest <> 4%nat) /\ (be16 f0 f1 = 2 -> length rest <> 16%nat)) ->
  exists e, dec_xoraddr tid v = AErr e.
Proof.
  intros H. destruct v as [|f0 [|f1 [|p0 [|p1 [|r0 rest]]]]]; try (eexists; reflexivity).
  specialize (H _ _ _ _ _ eq_refl) as [H1 H2].
  unfold dec_xoraddr, dec_xoraddr_gen.
  destruct (N.eqb_spec (be16 f0 f1) 1) as [E1|E1]; destruct (N.eqb_spec (be16 f0 f1) 2) as [E2|E2];
    cbn [orb negb]; try (eexists; reflexivity); try lia.
  - specialize (H1 E1). destruct (Nat.ltb_spec 4 (length (r0 :: rest))); [eexists; reflexivity|].
    cbn [andb]. destruct (Nat.eqb_spec (length (r0 :: rest)) 4); [contradiction|]. eexists; reflexivity.
  - specialize (H2 E2). destruct (Nat.ltb_spec 16 (length (r0 :: rest))); [eexists; reflexivity|].
    cbn [andb]. destruct (Nat.eqb_spec (length (r0 :: rest)) 16); [contradiction|]. eexists; reflexivity.
Qed.

(* a right-sized field decodes to exactly the bytes present, xored with the pad *)
Theorem xoraddr_right_size tid f0 f1 p0 p1 rest ip port :
  dec_xoraddr tid (f0 :: f1 :: p0 :: p1 :: rest) = AOk (ip, port) ->
  length tid = 12%nat ->
  ip = xor_bytes rest (xor_pad tid) /\ port = N.lxor (be16 p0 p1) 8466 /\
  ((be16 f0 f1 = 1 /\ length rest = 4%nat) \/ (be16 f0 f1 = 2 /\ length rest = 16%nat)).
Proof.
  intros H Ht. pose proof (xor_pad_length tid Ht) as Hpad.
  unfold dec_xoraddr, dec_xoraddr_gen in H.
  destruct rest as [|r0 rest]; [discriminate|].
  destruct (N.eqb_spec (be16 f0 f1) 1) as [E1|E1]; destruct (N.eqb_spec (be16 f0 f1) 2) as [E2|E2];
    cbn [orb negb] in H; try discriminate; try lia.
  - destruct (Nat.ltb_spec 4 (length (r0 :: rest))); [discriminate|]. cbn [andb] in H.
    destruct (Nat.eqb_spec (length (r0 :: rest)) 4) as [El|El]; [|discriminate]. cbn [negb] in H.
    injection H as Hi Hp; subst ip port.
    change (N.lxor r0 33 :: xor_bytes rest (18 :: 164 :: 66 :: tid)) with (xor_bytes (r0 :: rest) (xor_pad tid)).
    rewrite fill_to_exact by (rewrite xor_bytes_length, El, Hpad; reflexivity). auto.
  - destruct (Nat.ltb_spec 16 (length (r0 :: rest))); [discriminate|]. cbn [andb] in H.
    destruct (Nat.eqb_spec (length (r0 :: rest)) 16) as [El|El]; [|discriminate]. cbn [negb] in H.
    injection H as Hi Hp; subst ip port.
    change (N.lxor r0 33 :: xor_bytes rest (18 :: 164 :: 66 :: tid)) with (xor_bytes (r0 :: rest) (xor_pad tid)).
    rewrite fill_to_exact by (rewrite xor_bytes_length, El, Hpad; reflexivity). auto.
Qed.

(* pion/stun's GetFromAs alone (without the wrapper's size check) accepts a short
   address field and zero-fills it: the defect F14 of the pinned tree. *)
Theorem xoraddr_lenient_refuted :
  exists tid v ip port, length tid = 12%nat /\ length v = 5%nat /\
     dec_xoraddr_gen false tid v = AOk (ip, port) /\ length ip = 4%nat.
Proof.
  exists [0;0;0;0;0;0;0;0;0;0;0;0], [0;1;17;34;170], [139;0;0;0], 12336.
  vm_compute. auto.
Qed.
