(* The property predicates of Check/RelayProps.v - the ones evaluated on the IMPLEMENTATION's observed traces by the
   correspondence runs - hold on EVERY trace of the model, for every configuration and every history.
   Together with the step-by-step agreement the correspondence establishes, this is what connects "the model
   agrees with the code on this history" to "the property predicate holds on what the code did". *)
From Turn Require Import Bytes BytesP ChanData Relay RelayBase RelayInv RelayGates RelayLocal RelayMore RelayBalance.
From Turn Require Import Common RelayCheck RelayProps.
From Coq Require Import ZifyN ZifyNat ZifyBool.
Open Scope Z_scope.

(* the trace the model produces for a history: per event, its actions and the listing of the state afterwards *)
Fixpoint model_trace (cfg : config) (s : state) (h : list event) : list ostep :=
  match h with
  | [] => []
  | e :: r =>
      let '(s', acts) := step cfg s e in
      {| os_ev := e; os_acts := acts; os_allocs := listing_of s' |} :: model_trace cfg s' r
  end.

Definition model_case (cfg : config) (ep : Z) (h : list event) : rcase :=
  {| rc_cfg := cfg; rc_epoch := ep; rc_steps := model_trace cfg (init ep) h |}.

(* ---------- listing lemmas ---------- *)
Definition obs_of (a : alloc) : obs_alloc :=
  {| oa_client := a_client a; oa_relay := a_relay a; oa_perms := map p_ip (a_perms a);
     oa_chans := map (fun c => (c_num c, c_peer c)) (a_chans a) |}.

Lemma listing_of_map s : listing_of s = map obs_of (allocs s).
Proof. reflexivity. Qed.

Lemma find_oalloc_listing c l : find_oalloc c (map obs_of l) = option_map obs_of (find_alloc c l).
Proof.
  unfold find_oalloc. induction l as [|a l IH]; cbn; [reflexivity|].
  destruct (addr_eqb (a_client a) c); [reflexivity|exact IH].
Qed.

Lemma find_orelay_listing r l : find_orelay r (map obs_of l) = option_map obs_of (find_relay r l).
Proof.
  unfold find_orelay. induction l as [|a l IH]; cbn; [reflexivity|].
  destruct (addr_eqb (a_relay a) r); [reflexivity|exact IH].
Qed.

Lemma find_perm_has i l p : find_perm i l = Some p -> existsb (N.eqb i) (map p_ip l) = true.
Proof.
  induction l as [|x l IH]; cbn; [discriminate|].
  destruct (p_ip x =? i)%N eqn:E.
  - intros _. apply N.eqb_eq in E. rewrite E, N.eqb_refl. reflexivity.
  - intros H. rewrite (IH H). apply orb_true_r.
Qed.

Lemma find_chan_num_has n l c : find_chan_num n l = Some c ->
  existsb (chanpair_eqb (n, c_peer c)) (map (fun c => (c_num c, c_peer c)) l) = true.
Proof.
  induction l as [|x l IH]; cbn [find_chan_num map existsb]; [discriminate|].
  destruct (c_num x =? n)%N eqn:E.
  - intros H. inversion H; subst. apply N.eqb_eq in E. unfold chanpair_eqb. cbn. rewrite E, N.eqb_refl, addr_eqb_refl. reflexivity.
  - intros H. rewrite (IH H). apply orb_true_r.
Qed.

Lemma find_chan_peer_has p l c : find_chan_peer p l = Some c ->
  existsb (chanpair_eqb (c_num c, p)) (map (fun c => (c_num c, c_peer c)) l) = true.
Proof.
  induction l as [|x l IH]; cbn [find_chan_peer map existsb]; [discriminate|].
  destruct (addr_eqb (c_peer x) p) eqn:E.
  - intros H. inversion H; subst. apply addr_eqb_eq in E. unfold chanpair_eqb. cbn. rewrite E, N.eqb_refl, addr_eqb_refl. reflexivity.
  - intros H. rewrite (IH H). apply orb_true_r.
Qed.

(* ---------- the generic lift: a per-step fact that holds from every invariant state holds along the trace ---------- *)
Lemma all_steps_model cfg (f : list obs_alloc -> ostep -> bool) :
  (forall s e s' acts, inv cfg s -> step cfg s e = (s', acts) ->
     f (listing_of s) {| os_ev := e; os_acts := acts; os_allocs := listing_of s' |} = true) ->
  forall h s, inv cfg s -> all_steps f (listing_of s) (model_trace cfg s h) = true.
Proof.
  intros Hstep. induction h as [|e r IH]; intros s Hinv; cbn [model_trace all_steps]; [reflexivity|].
  destruct (step cfg s e) as [s' acts] eqn:Hs. cbn [all_steps os_allocs].
  rewrite (Hstep _ _ _ _ Hinv Hs). cbn. apply IH. eapply inv_step; eauto.
Qed.

(* ---------- C02 gate: data reaches a client only from a peer datagram, through a present binding/permission ---------- *)
Lemma todata_nil_of cfg s e s' acts : step cfg s e = (s', acts) ->
  match e with EPeer _ _ _ => False | _ => True end -> todata acts = [].
Proof.
  intros Hs Hne. unfold todata.
  assert (F : Forall (fun a => match a with DataInd _ _ _ | ChanDataOut _ _ _ => False | _ => True end) acts).
  { rewrite Forall_forall. intros a Hin. pose proof (to_client_data_only_from_peer cfg s e s' acts Hs) as T.
    destruct a; auto.
    - assert (exists relay from d, e = EPeer relay from d) as (r & f & dd & E) by (apply T; left; eauto). subst e. contradiction.
    - assert (exists relay from d, e = EPeer relay from d) as (r & f & dd & E) by (apply T; right; eauto). subst e. contradiction. }
  clear Hs. induction acts as [|a l IH]; cbn; [reflexivity|]. inversion F as [|? ? Ha Hl]; subst.
  destruct a; cbn in Ha |- *; try contradiction; apply IH; exact Hl.
Qed.

Lemma chk_C02_step_model cfg s e s' acts : inv cfg s -> step cfg s e = (s', acts) ->
  chk_C02_step (listing_of s) {| os_ev := e; os_acts := acts; os_allocs := listing_of s' |} = true.
Proof.
  intros _ Hs. unfold chk_C02_step. cbn [os_ev os_acts].
  destruct e as [src tid c rq unk|src p dat|src n dat|relay from dat|dt|relay];
    try (rewrite (todata_nil_of _ _ _ _ _ Hs I); reflexivity).
  cbn [step] in Hs. apply h_peer_spec in Hs as [_ [->|(a & Hf & _ & _ & [(c & Hc & ->)|(_ & pm & Hp & ->)])]]; [reflexivity| |].
  - cbn [todata filter]. rewrite listing_of_map, find_orelay_listing, Hf. cbn [option_map obs_of oa_client].
    rewrite addr_eqb_refl, beqb_refl. unfold has_chan, obs_of. cbn [oa_chans]. rewrite (find_chan_peer_has _ _ _ Hc). reflexivity.
  - cbn [todata filter]. rewrite listing_of_map, find_orelay_listing, Hf. cbn [option_map obs_of oa_client].
    rewrite !addr_eqb_refl, beqb_refl. unfold has_perm, obs_of. cbn [oa_perms]. rewrite (find_perm_has _ _ _ Hp). reflexivity.
Qed.

(* for every configuration and every history: on the model's own trace, data is delivered to a client only for a
   datagram that arrived at its relayed address, to the owner, unmodified, through a binding of the exact source or a
   permission for its IP that is present in the state before the event *)
Theorem chk_C02_gate_model cfg ep h : chk_C02_gate (model_case cfg ep h) = true.
Proof.
  unfold chk_C02_gate, model_case. cbn [rc_steps].
  apply (all_steps_model cfg chk_C02_step (chk_C02_step_model cfg) h (init ep)). apply inv_init.
Qed.

(* ---------- C15: callbacks balance against what exists, on every model trace ---------- *)
Lemma count_life_w (acts : list action) :
  count_life (fun e => match e with LAllocCreated _ _ _ => true | _ => false end) acts
    - count_life (fun e => match e with LAllocDeleted _ _ => true | _ => false end) acts = sumw wA acts /\
  count_life (fun e => match e with LPermCreated _ _ => true | _ => false end) acts
    - count_life (fun e => match e with LPermDeleted _ _ => true | _ => false end) acts = sumw wP acts /\
  count_life (fun e => match e with LChanCreated _ _ _ => true | _ => false end) acts
    - count_life (fun e => match e with LChanDeleted _ _ _ => true | _ => false end) acts = sumw wC acts.
Proof.
  unfold count_life. induction acts as [|a l IH]; cbn [filter length sumw fold_right]; [cbn; lia|].
  destruct IH as (I1 & I2 & I3). fold (sumw wA l) (sumw wP l) (sumw wC l).
  destruct a as [| | | | |e]; try (cbn [wA wP wC]; lia).
  destruct e; cbn [wA wP wC length]; lia.
Qed.

Lemma listing_counts l :
  Z.of_nat (length (map obs_of l)) = nA l /\
  Z.of_nat (length (flat_map oa_perms (map obs_of l))) = nP l /\
  Z.of_nat (length (flat_map oa_chans (map obs_of l))) = nC l.
Proof.
  unfold nA, nP, nC. induction l as [|a l (I1 & I2 & I3)]; cbn [map flat_map length fold_right]; [cbn; lia|].
  rewrite !app_length. cbn [obs_of oa_perms oa_chans]. rewrite !map_length. lia.
Qed.

Lemma chk_C15_model cfg h : forall s, inv cfg s ->
  chk_C15_from (nA (allocs s)) (nP (allocs s)) (nC (allocs s)) (model_trace cfg s h) = true.
Proof.
  induction h as [|e r IH]; intros s Hinv; cbn [model_trace chk_C15_from]; [reflexivity|].
  destruct (step cfg s e) as [s' acts] eqn:Hs. cbn [chk_C15_from os_acts os_allocs].
  destruct (balance_step _ _ _ _ _ Hinv Hs) as (B1 & B2 & B3).
  destruct (count_life_w acts) as (W1 & W2 & W3).
  destruct (listing_counts (allocs s')) as (L1 & L2 & L3). rewrite listing_of_map.
  replace (nA (allocs s) + _ - _) with (nA (allocs s')) by lia.
  replace (nP (allocs s) + _ - _) with (nP (allocs s')) by lia.
  replace (nC (allocs s) + _ - _) with (nC (allocs s')) by lia.
  rewrite L1, L2, L3, !Z.eqb_refl. cbn. apply IH. eapply inv_step; eauto.
Qed.

(* for every configuration and every history: after every step of the model the Created minus Deleted callbacks
   announced so far equal the allocations, permissions and channels that exist *)
Theorem chk_C15_on_model cfg ep h : chk_C15 (model_case cfg ep h) = true.
Proof. unfold chk_C15, model_case. cbn [rc_steps]. apply (chk_C15_model cfg h (init ep)). apply inv_init. Qed.
