(* The property predicates of Check/RelayProps.v - the ones evaluated on the IMPLEMENTATION's observed traces by the
   correspondence runs - hold on EVERY trace of the model, for every configuration and every history.
   Together with the step-by-step agreement the correspondence establishes, this is what connects "the model
   agrees with the code on this history" to "the property predicate holds on what the code did". *)
From Turn Require Import Bytes BytesP ChanData Relay RelayBase RelayInv RelayGates RelayLocal RelayMore RelayBalance.
From Turn Require Import Common RelayCheck RelayProps.
From Coq Require Import ZifyN ZifyNat ZifyBool.
Open Scope Z_scope.

(* the trace the model produces for a history: per event, its actions and the listing of the state afterwards *)
Fixpoint model_trace (cfg : config) (s : state) (h : list event) : list ostep :=
  match h with
  | [] => []
  | e :: r =>
      let '(s', acts) := step cfg s e in
      {| os_ev := e; os_acts := acts; os_allocs := listing_of s' |} :: model_trace cfg s' r
  end.

Definition model_case (cfg : config) (ep : Z) (h : list event) : rcase :=
  {| rc_cfg := cfg; rc_epoch := ep; rc_steps := model_trace cfg (init ep) h |}.

(* ---------- listing lemmas ---------- *)
Definition obs_of (a : alloc) : obs_alloc :=
  {| oa_client := a_client a; oa_relay := a_relay a; oa_perms := map p_ip (a_perms a);
     oa_chans := map (fun c => (c_num c, c_peer c)) (a_chans a) |}.

Lemma listing_of_map s : listing_of s = map obs_of (allocs s).
Proof. reflexivity. Qed.

Lemma find_oalloc_listing c l : find_oalloc c (map obs_of l) = option_map obs_of (find_alloc c l).
Proof.
  unfold find_oalloc. induction l as [|a l IH]; cbn; [reflexivity|].
  destruct (addr_eqb (a_client a) c); [reflexivity|exact IH].
Qed.

Lemma find_orelay_listing r l : find_orelay r (map obs_of l) = option_map obs_of (find_relay r l).
Proof.
  unfold find_orelay. induction l as [|a l IH]; cbn; [reflexivity|].
  destruct (addr_eqb (a_relay a) r); [reflexivity|exact IH].
Qed.

Lemma find_perm_has i l p : find_perm i l = Some p -> existsb (N.eqb i) (map p_ip l) = true.
Proof.
  induction l as [|x l IH]; cbn; [discriminate|].
  destruct (p_ip x =? i)%N eqn:E.
  - intros _. apply N.eqb_eq in E. rewrite E, N.eqb_refl. reflexivity.
  - intros H. rewrite (IH H). apply orb_true_r.
Qed.

Lemma find_chan_num_has n l c : find_chan_num n l = Some c ->
  existsb (chanpair_eqb (n, c_peer c)) (map (fun c => (c_num c, c_peer c)) l) = true.
Proof.
  induction l as [|x l IH]; cbn [find_chan_num map existsb]; [discriminate|].
  destruct (c_num x =? n)%N eqn:E.
  - intros H. inversion H; subst. apply N.eqb_eq in E. unfold chanpair_eqb. cbn. rewrite E, N.eqb_refl, addr_eqb_refl. reflexivity.
  - intros H. rewrite (IH H). apply orb_true_r.
Qed.

Lemma find_chan_peer_has p l c : find_chan_peer p l = Some c ->
  existsb (chanpair_eqb (c_num c, p)) (map (fun c => (c_num c, c_peer c)) l) = true.
Proof.
  induction l as [|x l IH]; cbn [find_chan_peer map existsb]; [discriminate|].
  destruct (addr_eqb (c_peer x) p) eqn:E.
  - intros H. inversion H; subst. apply addr_eqb_eq in E. unfold chanpair_eqb. cbn. rewrite E, N.eqb_refl, addr_eqb_refl. reflexivity.
  - intros H. rewrite (IH H). apply orb_true_r.
Qed.

(* ---------- the generic lift: a per-step fact that holds from every invariant state holds along the trace ---------- *)
Lemma all_steps_model cfg (f : list obs_alloc -> ostep -> bool) :
  (forall s e s' acts, inv cfg s -> step cfg s e = (s', acts) ->
     f (listing_of s) {| os_ev := e; os_acts := acts; os_allocs := listing_of s' |} = true) ->
  forall h s, inv cfg s -> all_steps f (listing_of s) (model_trace cfg s h) = true.
Proof.
  intros Hstep. induction h as [|e r IH]; intros s Hinv; cbn [model_trace all_steps]; [reflexivity|].
  destruct (step cfg s e) as [s' acts] eqn:Hs. cbn [all_steps os_allocs].
  rewrite (Hstep _ _ _ _ Hinv Hs). cbn. apply IH. eapply inv_step; eauto.
Qed.

(* ---------- C02 gate: data reaches a client only from a peer datagram, through a present binding/permission ---------- *)
Lemma todata_nil_of cfg s e s' acts : step cfg s e = (s', acts) ->
  match e with EPeer _ _ _ => False | _ => True end -> todata acts = [].
Proof.
  intros Hs Hne. unfold todata.
  assert (F : Forall (fun a => match a with DataInd _ _ _ | ChanDataOut _ _ _ => False | _ => True end) acts).
  { rewrite Forall_forall. intros a Hin. pose proof (to_client_data_only_from_peer cfg s e s' acts Hs) as T.
    destruct a; auto.
    - assert (exists relay from d, e = EPeer relay from d) as (r & f & dd & E) by (apply T; left; eauto). subst e. contradiction.
    - assert (exists relay from d, e = EPeer relay from d) as (r & f & dd & E) by (apply T; right; eauto). subst e. contradiction. }
  clear Hs. induction acts as [|a l IH]; cbn; [reflexivity|]. inversion F as [|? ? Ha Hl]; subst.
  destruct a; cbn in Ha |- *; try contradiction; apply IH; exact Hl.
Qed.

Lemma chk_C02_step_model cfg s e s' acts : inv cfg s -> step cfg s e = (s', acts) ->
  chk_C02_step (listing_of s) {| os_ev := e; os_acts := acts; os_allocs := listing_of s' |} = true.
Proof.
  intros _ Hs. unfold chk_C02_step. cbn [os_ev os_acts].
  destruct e as [src tid c rq unk|src p dat|src n dat|relay from dat|dt|relay|csrc| |];
    try (rewrite (todata_nil_of _ _ _ _ _ Hs I); reflexivity).
  cbn [step] in Hs. apply h_peer_spec in Hs as [_ [->|(a & Hf & _ & _ & [(c & Hc & ->)|(_ & pm & Hp & ->)])]]; [reflexivity| |].
  - cbn [todata filter]. rewrite listing_of_map, find_orelay_listing, Hf. cbn [option_map obs_of oa_client].
    rewrite addr_eqb_refl, beqb_refl. unfold has_chan, obs_of. cbn [oa_chans]. rewrite (find_chan_peer_has _ _ _ Hc). reflexivity.
  - cbn [todata filter]. rewrite listing_of_map, find_orelay_listing, Hf. cbn [option_map obs_of oa_client].
    rewrite !addr_eqb_refl, beqb_refl. unfold has_perm, obs_of. cbn [oa_perms]. rewrite (find_perm_has _ _ _ Hp). reflexivity.
Qed.

(* for every configuration and every history: on the model's own trace, data is delivered to a client only for a
   datagram that arrived at its relayed address, to the owner, unmodified, through a binding of the exact source or a
   permission for its IP that is present in the state before the event *)
Theorem chk_C02_gate_model cfg ep h : chk_C02_gate (model_case cfg ep h) = true.
Proof.
  unfold chk_C02_gate, model_case. cbn [rc_steps].
  apply (all_steps_model cfg chk_C02_step (chk_C02_step_model cfg) h (init ep)). apply inv_init.
Qed.

(* ---------- C15: callbacks balance against what exists, on every model trace ---------- *)
Lemma count_life_w (acts : list action) :
  count_life (fun e => match e with LAllocCreated _ _ _ => true | _ => false end) acts
    - count_life (fun e => match e with LAllocDeleted _ _ => true | _ => false end) acts = sumw wA acts /\
  count_life (fun e => match e with LPermCreated _ _ => true | _ => false end) acts
    - count_life (fun e => match e with LPermDeleted _ _ => true | _ => false end) acts = sumw wP acts /\
  count_life (fun e => match e with LChanCreated _ _ _ => true | _ => false end) acts
    - count_life (fun e => match e with LChanDeleted _ _ _ => true | _ => false end) acts = sumw wC acts.
Proof.
  unfold count_life. induction acts as [|a l IH]; cbn [filter length sumw fold_right]; [cbn; lia|].
  destruct IH as (I1 & I2 & I3). fold (sumw wA l) (sumw wP l) (sumw wC l).
  destruct a as [| | | | |e]; try (cbn [wA wP wC]; lia).
  destruct e; cbn [wA wP wC length]; lia.
Qed.

Lemma listing_counts l :
  Z.of_nat (length (map obs_of l)) = nA l /\
  Z.of_nat (length (flat_map oa_perms (map obs_of l))) = nP l /\
  Z.of_nat (length (flat_map oa_chans (map obs_of l))) = nC l.
Proof.
  unfold nA, nP, nC. induction l as [|a l (I1 & I2 & I3)]; cbn [map flat_map length fold_right]; [cbn; lia|].
  rewrite !app_length. cbn [obs_of oa_perms oa_chans]. rewrite !map_length. lia.
Qed.

Lemma no_client_listing src l : ~ In src (map a_client l) ->
  existsb (fun a => addr_eqb (oa_client a) src) (map obs_of l) = false.
Proof.
  induction l as [|a l IH]; cbn [map existsb]; intros H; [reflexivity|]. cbn [obs_of oa_client].
  destruct (addr_eqb (a_client a) src) eqn:E.
  - apply addr_eqb_eq in E. exfalso. apply H. left. exact E.
  - apply IH. intros Hc. apply H. right. exact Hc.
Qed.

Lemma ended_ok_model cfg s e s' acts : inv cfg s -> step cfg s e = (s', acts) -> ended_ok e acts (listing_of s') = true.
Proof.
  intros [Hnd _] Hs. destruct e as [| | | | | |csrc| |]; try reflexivity; cbn [step] in Hs; cbn [ended_ok].
  - unfold h_ctl_close in Hs. rewrite listing_of_map.
    destruct (find_alloc csrc (allocs s)) as [a|] eqn:Hf; inversion Hs; subst; cbn [allocs set_allocs].
    + apply find_alloc_some in Hf as [_ Hc]. rewrite Hc. rewrite no_client_listing; [reflexivity|].
      apply remove_alloc_gone. assumption.
    + apply find_alloc_none in Hf. rewrite no_client_listing; [reflexivity|assumption].
  - inversion Hs; subst. reflexivity.
  - inversion Hs; subst. reflexivity.
Qed.

Lemma chk_C15_model cfg h : forall s, inv cfg s ->
  chk_C15_from (nA (allocs s)) (nP (allocs s)) (nC (allocs s)) (model_trace cfg s h) = true.
Proof.
  induction h as [|e r IH]; intros s Hinv; cbn [model_trace chk_C15_from]; [reflexivity|].
  destruct (step cfg s e) as [s' acts] eqn:Hs. cbn [chk_C15_from os_acts os_allocs os_ev].
  pose proof (ended_ok_model _ _ _ _ _ Hinv Hs) as En. rewrite listing_of_map in En.
  destruct (balance_step _ _ _ _ _ Hinv Hs) as (B1 & B2 & B3).
  destruct (count_life_w acts) as (W1 & W2 & W3).
  destruct (listing_counts (allocs s')) as (L1 & L2 & L3). rewrite listing_of_map.
  replace (nA (allocs s) + _ - _) with (nA (allocs s')) by lia.
  replace (nP (allocs s) + _ - _) with (nP (allocs s')) by lia.
  replace (nC (allocs s) + _ - _) with (nC (allocs s')) by lia.
  rewrite L1, L2, L3, !Z.eqb_refl, En. cbn. apply IH. eapply inv_step; eauto.
Qed.

(* for every configuration and every history: after every step of the model the Created minus Deleted callbacks
   announced so far equal the allocations, permissions and channels that exist *)
Theorem chk_C15_on_model cfg ep h : chk_C15 (model_case cfg ep h) = true.
Proof. unfold chk_C15, model_case. cbn [rc_steps]. apply (chk_C15_model cfg h (init ep)). apply inv_init. Qed.

(* ---------- what never changes about an allocation: a frame lemma ---------- *)
Definition same_id (a a' : alloc) : Prop :=
  a_client a' = a_client a /\ a_relay a' = a_relay a /\ a_fam a' = a_fam a /\ a_proto a' = a_proto a /\ a_user a' = a_user a /\
  a_cache a' = a_cache a /\ a_tid a' = a_tid a.

Lemma same_id_refl a : same_id a a.
Proof. unfold same_id. auto 10. Qed.

Lemma add_perm_id a i dl a' ev : add_perm a i dl = (a', ev) -> same_id a a'.
Proof. unfold add_perm. intros H. inversion H; subst. unfold same_id; cbn. auto 10. Qed.

Lemma install_perms_id dl peers : forall a a' ev, install_perms a dl peers = (a', ev) -> same_id a a'.
Proof.
  induction peers as [|[p|] r IH]; cbn [install_perms]; intros a a' ev H.
  - inversion H; subst. apply same_id_refl.
  - destruct (add_perm a (ip p) dl) as [a1 e1] eqn:H1. destruct (install_perms a1 dl r) as [a2 e2] eqn:H2.
    inversion H; subst. apply add_perm_id in H1. apply IH in H2. unfold same_id in *. intuition congruence.
  - eapply IH; eauto.
Qed.

Lemma tick_allocs_id t l : forall l' ev, tick_allocs t l = (l', ev) ->
  forall a', In a' l' -> exists a, In a l /\ same_id a a'.
Proof.
  induction l as [|a l IH]; cbn [tick_allocs]; intros l' ev H a' Hin; [inversion H; subst; destruct Hin|].
  destruct (tick_alloc t a) as [oa e1] eqn:H1. destruct (tick_allocs t l) as [r e2] eqn:H2.
  inversion H; subst; clear H. unfold tick_alloc in H1.
  destruct (a_dl a <=? t).
  - inversion H1; subst. destruct (IH _ _ eq_refl _ Hin) as (x & Hx & Hs). exists x. split; [right; exact Hx|exact Hs].
  - inversion H1; subst; clear H1. destruct Hin as [<-|Hin].
    + exists a. split; [left; reflexivity|]. unfold same_id; cbn. auto 10.
    + destruct (IH _ _ eq_refl _ Hin) as (x & Hx & Hs). exists x. split; [right; exact Hx|exact Hs].
Qed.

(* an allocation of the state after a step is one of the state before with the same identity, or the one a successful
   Allocate has just created: for the requester, of a family 1 or 2, on the relay IP of that family *)
Definition fresh_alloc (cfg : config) (s : state) (e : event) (a' : alloc) : Prop :=
  (exists src tid c r unk, e = EReq src tid c r unk /\ a_client a' = src) /\
  find_alloc (a_client a') (allocs s) = None /\
  (a_fam a' = 1%N \/ a_fam a' = 2%N) /\
  ip (a_relay a') = (if (a_fam a' =? 2)%N then cfg_relay_ip6 cfg else cfg_relay_ip4 cfg) /\
  a_perms a' = [] /\ a_chans a' = [] /\
  mapped_attr (a_cache a') = Some (a_client a') /\ relayed_attr (a_cache a') = Some (a_relay a').

Lemma default_family_12 cfg src : default_family cfg src = 1%N \/ default_family cfg src = 2%N.
Proof.
  unfold default_family, fam_of. destruct (cfg_strict_family cfg); auto. destruct (cfg_listener cfg); auto.
  destruct (is_v4 (ip src)); auto.
Qed.

Theorem step_frame cfg s e s' acts : step cfg s e = (s', acts) ->
  forall a', In a' (allocs s') -> (exists a, In a (allocs s) /\ same_id a a') \/ fresh_alloc cfg s e a'.
Proof.
  intros H a' Hin.
  assert (Same : s' = s -> (exists a, In a (allocs s) /\ same_id a a') \/ fresh_alloc cfg s e a').
  { intros ->. left. exists a'. split; [exact Hin|apply same_id_refl]. }
  assert (Repl : forall a x, In a (allocs s) -> same_id a x -> In a' (replace_alloc x (allocs s)) ->
            (exists a0, In a0 (allocs s) /\ same_id a0 a') \/ fresh_alloc cfg s e a').
  { intros a x Ha Hs Hi. left. apply replace_alloc_in in Hi as [->|Hi]; [exists a; auto|exists a'; split; [exact Hi|apply same_id_refl]]. }
  destruct e as [src tid c r unk|src p d|src n d|relay from d|dt|relay|csrc| |]; cbn [step] in H.
  - destruct unk; [inversion H; subst; apply Same; reflexivity|].
    destruct r as [tr lt fam df rp ep rt mt|lt fam|peers|n p|]; try (inversion H; subst; apply Same; reflexivity);
      destruct (authenticate cfg s c) as [uid|code ch]; try (inversion H; subst; apply Same; reflexivity).
    + unfold h_allocate in H. repeat (dmatch H; try (inversion H; subst; apply Same; reflexivity)).
      all: inversion H; subst; clear H; cbn [allocs set_allocs add_rsv] in Hin; apply in_app_iff in Hin as [Hin|[<-|[]]];
        [left; exists a'; split; [exact Hin|apply same_id_refl]|right].
      all: unfold fresh_alloc; cbn; splits; eauto 10.
      all: try (match goal with E : (_ =? 2)%N = _ |- _ => rewrite E; reflexivity end).
      all: match goal with E : match ?f with AAbsent => _ | ABadSize => _ | APresent _ => _ end = inl _ |- _ =>
             destruct f as [| |f0]; [inversion E; subst; apply default_family_12|discriminate|
               destruct ((f0 =? 1)%N || (f0 =? 2)%N) eqn:Ef; [|discriminate]; inversion E; subst;
               apply orb_true_iff in Ef as [Ef|Ef]; apply N.eqb_eq in Ef; auto] end.
    + unfold h_refresh in H. cbv zeta in H.
      destruct (owned_alloc s src uid) as [a|] eqn:Ho; [|inversion H; subst; apply Same; reflexivity].
      apply owned_alloc_some in Ho as (Ha & _ & _).
      repeat (dmatch H; try (inversion H; subst; apply Same; reflexivity)).
      all: inversion H; subst; clear H; cbn [allocs set_allocs] in Hin.
      all: try (left; apply remove_alloc_in in Hin; exists a'; split; [exact Hin|apply same_id_refl]).
      all: eapply Repl; [exact Ha| |exact Hin]; unfold same_id; cbn; auto 10.
    + unfold h_create_perm in H.
      destruct (owned_alloc s src uid) as [a|] eqn:Ho; [|inversion H; subst; apply Same; reflexivity].
      apply owned_alloc_some in Ho as (Ha & _ & _).
      destruct (perm_check cfg a peers); [inversion H; subst; apply Same; reflexivity|].
      destruct peers as [|q peers]; [inversion H; subst; apply Same; reflexivity|].
      destruct (install_perms a (now s + cfg_perm_timeout cfg) (q :: peers)) as [a1 evs] eqn:Hi.
      inversion H; subst; clear H. cbn [allocs set_allocs] in Hin.
      eapply Repl; [exact Ha|eapply install_perms_id; eauto|exact Hin].
    + unfold h_channel_bind in H.
      destruct (owned_alloc s src uid) as [a|] eqn:Ho; [|inversion H; subst; apply Same; reflexivity].
      apply owned_alloc_some in Ho as (Ha & _ & _).
      repeat (dmatch H; try (inversion H; subst; apply Same; reflexivity)).
      all: inversion H; subst; clear H; cbn [allocs set_allocs] in Hin.
      all: match goal with E : add_perm _ _ _ = (?x, _) |- _ => apply add_perm_id in E;
             eapply Repl; [exact Ha| |exact Hin]; unfold same_id in *; cbn in *; intuition congruence end.
  - unfold h_send in H. repeat (dmatch H; try (inversion H; subst; apply Same; reflexivity)).
  - unfold h_chandata in H. repeat (dmatch H; try (inversion H; subst; apply Same; reflexivity)).
  - unfold h_peer in H. repeat (dmatch H; try (inversion H; subst; apply Same; reflexivity)).
  - unfold h_tick in H. destruct (tick_allocs (now s + Z.max 0 dt) (allocs s)) as [l evs] eqn:Ht.
    inversion H; subst; clear H. cbn [allocs] in Hin. left. eapply tick_allocs_id; eauto.
  - unfold h_relay_err in H. destruct (find_relay relay (allocs s)) as [a|]; inversion H; subst; [|apply Same; reflexivity].
    cbn [allocs set_allocs] in Hin. left. apply remove_alloc_in in Hin. exists a'. split; [exact Hin|apply same_id_refl].
  - unfold h_ctl_close in H. destruct (find_alloc csrc (allocs s)) as [a|]; inversion H; subst; [|apply Same; reflexivity].
    cbn [allocs set_allocs] in Hin. left. apply remove_alloc_in in Hin. exists a'. split; [exact Hin|apply same_id_refl].
  - inversion H; subst. destruct Hin.
  - inversion H; subst. apply Same; reflexivity.
Qed.

(* the generic lift with an additional invariant *)
Lemma all_steps_model2 cfg (J : state -> Prop) (f : list obs_alloc -> ostep -> bool) :
  (forall s e s' acts, inv cfg s -> J s -> step cfg s e = (s', acts) -> J s') ->
  (forall s e s' acts, inv cfg s -> J s -> step cfg s e = (s', acts) ->
     f (listing_of s) {| os_ev := e; os_acts := acts; os_allocs := listing_of s' |} = true) ->
  forall h s, inv cfg s -> J s -> all_steps f (listing_of s) (model_trace cfg s h) = true.
Proof.
  intros HJ Hstep. induction h as [|e r IH]; intros s Hinv Hj; cbn [model_trace all_steps]; [reflexivity|].
  destruct (step cfg s e) as [s' acts] eqn:Hs. cbn [all_steps os_allocs].
  rewrite (Hstep _ _ _ _ Hinv Hj Hs). cbn. apply IH; [eapply inv_step; eauto|eapply HJ; eauto].
Qed.

(* ---------- C01 gate ---------- *)
(* the relay IPs of the configuration are of the family they are configured for *)
Definition cfg_relay_wf (cfg : config) : Prop := is_v4 (cfg_relay_ip4 cfg) = true /\ is_v4 (cfg_relay_ip6 cfg) = false.
Definition relfam (s : state) : Prop := Forall (fun a => fam_of (ip (a_relay a)) = a_fam a) (allocs s).

Lemma relfam_step cfg s e s' acts : cfg_relay_wf cfg -> relfam s -> step cfg s e = (s', acts) -> relfam s'.
Proof.
  intros [W4 W6] Hr Hs. unfold relfam in *. rewrite Forall_forall in *. intros a' Hin.
  destruct (step_frame _ _ _ _ _ Hs _ Hin) as [(a & Ha & (_ & Er & Ef & _))|(_ & _ & Hf & Hip & _)].
  - rewrite Er, Ef. apply Hr. exact Ha.
  - unfold fam_of. rewrite Hip. destruct Hf as [E|E]; rewrite E; cbn; [rewrite W4|rewrite W6]; reflexivity.
Qed.

Lemma installed_ok_obs cfg a : alloc_ok cfg a -> fam_of (ip (a_relay a)) = a_fam a -> installed_ok cfg (obs_of a) = true.
Proof.
  intros (_ & _ & _ & _ & Hp & Hc) Hf. unfold installed_ok, oa_fam, obs_of. cbn [oa_perms oa_chans oa_client oa_relay].
  rewrite Hf. apply andb_true_iff. split; apply forallb_forall.
  - intros i Hi. destruct (Hp i Hi) as [A B]. rewrite A, B. reflexivity.
  - intros [n p] Hi. cbn [snd]. apply in_map_iff in Hi as (c & E & Hc'). inversion E; subst.
    destruct (Hc (c_peer c) (in_map _ _ _ Hc')) as [A B]. rewrite A, B. reflexivity.
Qed.

Lemma topeers_nil_of cfg s e s' acts : step cfg s e = (s', acts) ->
  match e with ESend _ _ _ | EChanData _ _ _ => False | _ => True end -> topeers acts = [].
Proof.
  intros Hs Hne. unfold topeers.
  assert (F : Forall (fun a => match a with ToPeer _ _ _ => False | _ => True end) acts).
  { rewrite Forall_forall. intros a Hin. destruct a; auto.
    destruct (topeer_only_from_send_or_chandata cfg s e s' acts _ _ _ Hs Hin) as [(x & y & z & E)|(x & y & z & E)]; subst e; contradiction. }
  clear Hs. induction acts as [|a l IH]; cbn; [reflexivity|]. inversion F as [|? ? Ha Hl]; subst.
  destruct a; cbn in Ha |- *; try contradiction; apply IH; exact Hl.
Qed.

Lemma chk_C01_step_model cfg s e s' acts : cfg_relay_wf cfg -> inv cfg s -> relfam s -> step cfg s e = (s', acts) ->
  chk_C01_step cfg (listing_of s) {| os_ev := e; os_acts := acts; os_allocs := listing_of s' |} = true.
Proof.
  intros Hw Hinv Hr Hs. unfold chk_C01_step. cbn [os_ev os_acts os_allocs].
  assert (Hinst : forallb (installed_ok cfg) (listing_of s') = true).
  { pose proof (inv_step _ _ _ _ _ Hinv Hs) as [_ Hall]. pose proof (relfam_step _ _ _ _ _ Hw Hr Hs) as Hr'.
    rewrite listing_of_map. apply forallb_forall. intros o Ho. apply in_map_iff in Ho as (a & <- & Ha).
    unfold relfam in Hr'. rewrite Forall_forall in Hall, Hr'. apply installed_ok_obs; auto. }
  rewrite Hinst. cbn [andb].
  destruct e as [src tid c rq unk|src p dat|src n dat|relay from dat|dt|relay|csrc| |];
    try (rewrite (topeers_nil_of _ _ _ _ _ Hs I); reflexivity).
  - cbn [step] in Hs. apply h_send_spec in Hs as [_ [->|(a & q & d & pm & -> & -> & -> & Hf & Hp & _)]]; [destruct p as [[?|]|], dat; reflexivity|].
    cbn [topeers filter]. rewrite listing_of_map, find_oalloc_listing, Hf. cbn [option_map obs_of oa_relay].
    rewrite !addr_eqb_refl, beqb_refl. unfold has_perm, obs_of. cbn [oa_perms]. rewrite (find_perm_has _ _ _ Hp). reflexivity.
  - cbn [step] in Hs. apply h_chandata_spec in Hs as [_ [->|(a & c & -> & Hf & Hc & _)]]; [reflexivity|].
    cbn [topeers filter]. rewrite listing_of_map, find_oalloc_listing, Hf. cbn [option_map obs_of oa_relay].
    rewrite !addr_eqb_refl, beqb_refl. unfold has_chan, obs_of. cbn [oa_chans]. rewrite (find_chan_num_has _ _ _ Hc). reflexivity.
Qed.

(* for every configuration (with relay IPs of their own family) and every history: on the model's own trace nothing
   vetoed or of the wrong family is ever installed, and data leaves toward a peer only for a Send indication /
   ChannelData of the owner, from its own relayed address, unmodified, through a permission / binding present
   before the event *)
Theorem chk_C01_gate_model cfg ep h : cfg_relay_wf cfg -> chk_C01_gate (model_case cfg ep h) = true.
Proof.
  intros Hw. unfold chk_C01_gate, model_case. cbn [rc_steps rc_cfg].
  change (@nil obs_alloc) with (listing_of (init ep)).
  apply (all_steps_model2 cfg relfam (chk_C01_step cfg)).
  - intros s e s' acts _ Hr Hs. eapply relfam_step; eauto.
  - intros s e s' acts Hinv Hr Hs. apply chk_C01_step_model; assumption.
  - apply inv_init.
  - constructor.
Qed.

(* ---------- C08 ---------- *)
Lemma mset_eqb_refl {A} (eqb : A -> A -> bool) l : mset_eqb eqb l l = true.
Proof. unfold mset_eqb. rewrite Nat.eqb_refl. cbn. apply forallb_forall. intros x _. apply Nat.eqb_refl. Qed.

Lemma nodupb_NoDup {A} (eqb : A -> A -> bool) (Heq : forall a b, eqb a b = true <-> a = b) l : NoDup l -> nodupb eqb l = true.
Proof.
  induction l as [|x l IH]; intros H; [reflexivity|]. inversion H as [|? ? Hx Hl]; subst. cbn [nodupb].
  rewrite (IH Hl), andb_true_r. apply Bool.negb_true_iff. apply Bool.not_true_is_false. intros E.
  apply existsb_exists in E as (y & Hy & Ey). apply Heq in Ey. subst. contradiction.
Qed.

Lemma bijective_obs cfg a : alloc_ok cfg a -> bijective (obs_of a) = true.
Proof.
  intros (_ & Hn & Hp & Hv & _). unfold bijective, obs_of. cbn [oa_chans]. rewrite !map_map. cbn [fst snd].
  change (map (fun x : chan => c_num x) (a_chans a)) with (map c_num (a_chans a)).
  change (map (fun x : chan => c_peer x) (a_chans a)) with (map c_peer (a_chans a)).
  rewrite (nodupb_NoDup N.eqb N.eqb_eq _ Hn), (nodupb_NoDup addr_eqb addr_eqb_eq _ Hp). cbn.
  apply forallb_forall. intros [n p] Hi. apply in_map_iff in Hi as (c & E & Hc). inversion E; subst. cbn. apply Hv. exact Hc.
Qed.

Lemma find_chan_num_unique l c : NoDup (map c_num l) -> In c l -> find_chan_num (c_num c) l = Some c.
Proof.
  induction l as [|x l IH]; cbn; [contradiction|]. intros Hnd Hin. inversion Hnd as [|? ? Hx Hl]; subst.
  destruct Hin as [->|Hin]; [rewrite N.eqb_refl; reflexivity|].
  destruct (N.eqb_spec (c_num x) (c_num c)) as [E|E]; [|apply IH; assumption].
  exfalso. apply Hx. rewrite E. apply in_map. exact Hin.
Qed.

Lemma find_chan_peer_unique l c : NoDup (map c_peer l) -> In c l -> find_chan_peer (c_peer c) l = Some c.
Proof.
  induction l as [|x l IH]; cbn; [contradiction|]. intros Hnd Hin. inversion Hnd as [|? ? Hx Hl]; subst.
  destruct Hin as [->|Hin]; [rewrite addr_eqb_refl; reflexivity|].
  destruct (addr_eqb (c_peer x) (c_peer c)) eqn:E; [|apply IH; assumption].
  apply addr_eqb_eq in E. exfalso. apply Hx. rewrite E. apply in_map. exact Hin.
Qed.

(* a conflicting ChannelBind by the owner: an error (400, 443 or 401), nothing changes *)
Lemma channel_bind_conflict_codes cfg s src tid uid n p a :
  owned_alloc s src uid = Some a ->
  ((exists c, find_chan_num n (a_chans a) = Some c /\ c_peer c <> p) \/
   (exists c, find_chan_peer p (a_chans a) = Some c /\ c_num c <> n)) ->
  exists code, h_channel_bind cfg s src tid uid (APresent n) (Some (PeerOk p)) = (s, [Error src MChannelBind tid code false])
               /\ (code = 400 \/ code = 443 \/ code = 401)%N.
Proof.
  intros Ho Hconf. unfold h_channel_bind. rewrite Ho.
  destruct (valid_chan n); cbn [negb]; [|eexists; split; [reflexivity|auto]].
  destruct (ip_matches_family (ip p) (a_fam a)); cbn [negb]; [|eexists; split; [reflexivity|auto]].
  destruct (cfg_policy cfg src (ip p)); cbn [negb]; [|eexists; split; [reflexivity|auto]].
  destruct Hconf as [(c & Hc & Hne)|(c & Hc & Hne)].
  - destruct (find_chan_peer p (a_chans a)) as [c1|] eqn:Hp.
    + destruct (N.eqb_spec (c_num c1) n); cbn [negb].
      * rewrite Hc. destruct (addr_eqb (c_peer c) p) eqn:E; [apply addr_eqb_eq in E; contradiction|].
        cbn [negb]. eexists; split; [reflexivity|auto].
      * eexists; split; [reflexivity|auto].
    + rewrite Hc. destruct (addr_eqb (c_peer c) p) eqn:E; [apply addr_eqb_eq in E; contradiction|].
      cbn [negb]. eexists; split; [reflexivity|auto].
  - rewrite Hc. destruct (N.eqb_spec (c_num c) n); [contradiction|]. cbn [negb]. eexists; split; [reflexivity|auto].
Qed.

Lemma authenticate_code_nonzero cfg s c code ch : authenticate cfg s c = AuthReply code ch -> (code =? 0)%N = false.
Proof.
  unfold authenticate. intros H. repeat (dmatch H; try discriminate). all: inversion H; subst; reflexivity.
Qed.

Lemma chandata_out_valid cfg s e s' acts : inv cfg s -> step cfg s e = (s', acts) ->
  forallb (fun a => match a with ChanDataOut _ n _ => valid_chan n | _ => true end) acts = true.
Proof.
  intros [_ Hall] Hs. apply forallb_forall. intros x Hx. destruct x as [| | |dst n d| |]; auto.
  assert (exists relay from dd, e = EPeer relay from dd) as (relay & from & dd & ->)
    by (eapply to_client_data_only_from_peer; [exact Hs|right; eauto]).
  cbn [step] in Hs. apply h_peer_spec in Hs as [_ [->|(a & Hf & _ & _ & [(c & Hc & ->)|(_ & pm & _ & ->)])]];
    [destruct Hx| |destruct Hx as [E|[]]; discriminate].
  destruct Hx as [E|[]]. inversion E; subst. apply find_relay_some in Hf as [Ha _]. apply find_chan_peer_some in Hc as [Hc _].
  rewrite Forall_forall in Hall. destruct (Hall _ Ha) as (_ & _ & _ & Hv & _). apply Hv. exact Hc.
Qed.

Lemma chk_C08_step_model cfg s e s' acts : inv cfg s -> step cfg s e = (s', acts) ->
  chk_C08_step (listing_of s) {| os_ev := e; os_acts := acts; os_allocs := listing_of s' |} = true.
Proof.
  intros Hinv Hs. unfold chk_C08_step. cbn [os_ev os_acts os_allocs].
  assert (Hbij : forallb bijective (listing_of s') = true).
  { pose proof (inv_step _ _ _ _ _ Hinv Hs) as [_ Hall]. rewrite listing_of_map. apply forallb_forall.
    intros o Ho. apply in_map_iff in Ho as (a & <- & Ha). rewrite Forall_forall in Hall. eapply bijective_obs; eauto. }
  rewrite Hbij, (chandata_out_valid _ _ _ _ _ Hinv Hs). cbn [andb].
  destruct e as [src tid c rq unk|src p dat|src n dat|relay from dat|dt|relay|csrc| |]; try reflexivity.
  destruct rq as [? ? ? ? ? ? ? ?|? ?|?|num peer|]; try reflexivity.
  destruct num as [| |n]; try reflexivity. destruct peer as [[p|]|]; try reflexivity. destruct unk; [reflexivity|].
  rewrite listing_of_map, find_oalloc_listing. destruct (find_alloc src (allocs s)) as [a|] eqn:Hf; [|reflexivity].
  cbn [option_map]. cbn [step] in Hs.
  destruct (authenticate cfg s c) as [uid|code ch] eqn:Ha.
  2:{ (* not authenticated: an error reply, nothing changes *)
    inversion Hs; subst; clear Hs. cbn [replies filter req_method lifes is_life].
    rewrite (authenticate_code_nonzero _ _ _ _ _ Ha), mset_eqb_refl. cbn.
    destruct (existsb _ _); cbn; [reflexivity|]. destruct (valid_chan n); reflexivity. }
  destruct (owned_alloc s src uid) as [a0|] eqn:Ho.
  2:{ (* not the owner: silence *)
      unfold h_channel_bind in Hs. rewrite Ho in Hs. inversion Hs; subst; clear Hs. cbn [replies filter].
      rewrite !andb_false_r. reflexivity. }
  assert (a0 = a) as -> by (unfold owned_alloc in Ho; rewrite Hf in Ho; destruct (a_user a =? uid)%N; congruence).
  pose proof (find_alloc_some _ _ _ Hf) as [Hain _].
  assert (Hok : alloc_ok cfg a) by (destruct Hinv as [_ Hall]; rewrite Forall_forall in Hall; auto).
  destruct Hok as (_ & Hnn & Hnp & _).
  destruct (existsb _ (oa_chans (obs_of a))) eqn:Hconf.
  - (* a conflicting binding exists *)
    apply existsb_exists in Hconf as ([n0 p0] & Hin0 & Hc0). unfold obs_of in Hin0. cbn [oa_chans] in Hin0.
    apply in_map_iff in Hin0 as (c0 & E0 & Hc0in). inversion E0; subst n0 p0; clear E0. cbn [fst snd] in Hc0.
    assert (Hcf : (exists c1, find_chan_num n (a_chans a) = Some c1 /\ c_peer c1 <> p) \/
                  (exists c1, find_chan_peer p (a_chans a) = Some c1 /\ c_num c1 <> n)).
    { apply orb_true_iff in Hc0 as [H1|H1]; apply andb_true_iff in H1 as [A B].
      - apply N.eqb_eq in A. apply Bool.negb_true_iff, addr_eqb_neq in B. left. exists c0. split; [|exact B].
        rewrite <- A. apply find_chan_num_unique; assumption.
      - apply Bool.negb_true_iff in A. apply N.eqb_neq in A. apply addr_eqb_eq in B. right. exists c0. split; [|exact A].
        rewrite <- B. apply find_chan_peer_unique; assumption. }
    destruct (channel_bind_conflict_codes cfg s src tid uid n p a Ho Hcf) as (code & Hh & Hcode).
    rewrite Hh in Hs. inversion Hs; subst; clear Hs. cbn [replies filter lifes is_life andb].
    rewrite mset_eqb_refl. destruct Hcode as [E|[E|E]]; rewrite E; reflexivity.
  - (* no conflict *)
    cbn [andb]. destruct (valid_chan n) eqn:Hv; cbn [negb andb]; [reflexivity|].
    unfold h_channel_bind in Hs. rewrite Ho, Hv in Hs. cbn [negb] in Hs. inversion Hs; subst; clear Hs.
    cbn [replies filter]. rewrite mset_eqb_refl. reflexivity.
Qed.

(* for every configuration and every history: channel bindings stay one-to-one and in range, ChannelData toward the
   client carries numbers in range, and a conflicting or out-of-range ChannelBind that is answered is answered by an
   error and changes nothing *)
Theorem chk_C08_bij_model cfg ep h : chk_C08_bij (model_case cfg ep h) = true.
Proof.
  unfold chk_C08_bij, model_case. cbn [rc_steps]. change (@nil obs_alloc) with (listing_of (init ep)).
  apply (all_steps_model cfg chk_C08_step (chk_C08_step_model cfg) h (init ep)). apply inv_init.
Qed.

(* ---------- the shape of a request's outcome: lifecycle events, then at most one answer ---------- *)
Definition shaped (src : addr) (m : method) (tid : N) (acts : list action) : Prop :=
  exists evs tail, acts = evs ++ tail /\ Forall RelayGates.is_life evs /\
    (tail = [] \/ (exists at_, tail = [Success src m tid at_]) \/ (exists code ch, tail = [Error src m tid code ch])).

Lemma shaped_nil src m tid : shaped src m tid [].
Proof. exists [], []. split; [reflexivity|split; [constructor|auto]]. Qed.
Lemma shaped_err src m tid code ch : shaped src m tid [Error src m tid code ch].
Proof. exists [], [Error src m tid code ch]. split; [reflexivity|split; [constructor|right; right; eauto]]. Qed.
Lemma shaped_ok src m tid at_ : shaped src m tid [Success src m tid at_].
Proof. exists [], [Success src m tid at_]. split; [reflexivity|split; [constructor|right; left; eauto]]. Qed.
Lemma shaped_app_life src m tid evs l : Forall RelayGates.is_life evs -> shaped src m tid l -> shaped src m tid (evs ++ l).
Proof.
  intros He (e2 & tail & -> & H2 & Ht). exists (evs ++ e2), tail. split; [apply app_assoc|split; [apply Forall_app; auto|exact Ht]].
Qed.
Lemma shaped_cons_life src m tid e l : shaped src m tid l -> shaped src m tid (Life e :: l).
Proof. intros H. apply (shaped_app_life src m tid [Life e]); [repeat constructor|exact H]. Qed.

Ltac shp := repeat first
  [ apply shaped_nil | apply shaped_err | apply shaped_ok | apply shaped_cons_life
  | apply shaped_app_life; [first [eassumption | apply close_events_life]|] ].

Theorem req_shape cfg s src tid c r unk s' acts :
  step cfg s (EReq src tid c r unk) = (s', acts) -> shaped src (req_method r) tid acts.
Proof.
  cbn [step]. intros H. destruct unk; [inversion H; subst; shp|].
  destruct r as [tr lt fam df rp ep rt mt|lt fam|peers|n p|]; try (inversion H; subst; shp; fail);
    destruct (authenticate cfg s c) as [uid|code ch]; try (inversion H; subst; shp; fail); cbn [req_method].
  - unfold h_allocate in H. repeat (dmatch H; try (inversion H; subst; shp; fail)). all: inversion H; subst; shp.
  - unfold h_refresh in H. cbv zeta in H. repeat (dmatch H; try (inversion H; subst; shp; fail)).
    all: try (inversion H; subst; shp; fail).
  - unfold h_create_perm in H.
    destruct (owned_alloc s src uid) as [a|]; [|inversion H; subst; shp].
    destruct (perm_check cfg a peers); [inversion H; subst; shp|].
    destruct peers as [|q peers]; [inversion H; subst; shp|].
    destruct (install_perms a _ (q :: peers)) as [a' evs] eqn:Hi. inversion H; subst.
    apply install_perms_life in Hi. shp.
  - unfold h_channel_bind in H. repeat (dmatch H; try (inversion H; subst; shp; fail)).
    all: inversion H; subst; match goal with Ha : add_perm _ _ _ = (_, _) |- _ => apply add_perm_life in Ha end; shp.
Qed.

Lemma replies_life evs : Forall RelayGates.is_life evs -> replies evs = [].
Proof.
  unfold replies. induction evs as [|a l IH]; intros H; [reflexivity|]. inversion H as [|? ? Ha Hl]; subst.
  destruct a; cbn in Ha; try contradiction. cbn. apply IH. exact Hl.
Qed.
Lemma lifes_life evs : Forall RelayGates.is_life evs -> lifes evs = evs.
Proof.
  unfold lifes. induction evs as [|a l IH]; intros H; [reflexivity|]. inversion H as [|? ? Ha Hl]; subst.
  destruct a; cbn in Ha; try contradiction. cbn. rewrite (IH Hl). reflexivity.
Qed.
Lemma replies_app a b : replies (a ++ b) = replies a ++ replies b.
Proof. unfold replies. apply filter_app. Qed.
Lemma lifes_app a b : lifes (a ++ b) = lifes a ++ lifes b.
Proof. unfold lifes. apply filter_app. Qed.

(* ---------- C19 ---------- *)
(* environment: the relay address generator never hands out a port that a live allocation holds (C20 for the bundled
   generators; the operating system for a custom one) *)
Definition env_fresh (s : state) (e : event) : Prop :=
  match e with
  | EReq _ _ _ (RqAllocate _ _ _ _ (Some rp) _ _ _) _ => forall a, In a (allocs s) -> port (a_relay a) <> rp
  | _ => True
  end.
Fixpoint env_ok (cfg : config) (s : state) (h : list event) : Prop :=
  match h with [] => True | e :: r => env_fresh s e /\ env_ok cfg (fst (step cfg s e)) r end.

Definition relays_unique (s : state) : Prop := NoDup (map a_relay (allocs s)).

Lemma replace_alloc_map_relay a a' l : In a l -> NoDup (map a_client l) -> a_client a' = a_client a -> a_relay a' = a_relay a ->
  map a_relay (replace_alloc a' l) = map a_relay l.
Proof.
  induction l as [|x l IH]; cbn; [contradiction|]. intros Hin Hnd Hc Hr. inversion Hnd as [|? ? Hx Hl]; subst.
  destruct (addr_eqb (a_client x) (a_client a')) eqn:E.
  - apply addr_eqb_eq in E. destruct Hin as [->|Hin]; [cbn; congruence|].
    exfalso. apply Hx. rewrite E, Hc. apply in_map. exact Hin.
  - cbn. f_equal. destruct Hin as [->|Hin]; [apply addr_eqb_neq in E; congruence|]. apply IH; assumption.
Qed.

Lemma remove_alloc_relays c l : NoDup (map a_relay l) -> NoDup (map a_relay (remove_alloc c l)).
Proof.
  induction l as [|x l IH]; cbn; [auto|]. intros H. inversion H as [|? ? Hx Hl]; subst.
  destruct (addr_eqb (a_client x) c); cbn; [assumption|]. constructor; [|auto].
  intros Hin. apply Hx. apply in_map_iff in Hin as (y & E & Hy). rewrite <- E. apply in_map. eapply remove_alloc_in; eauto.
Qed.

Lemma tick_allocs_relays t l : forall l' ev, tick_allocs t l = (l', ev) -> NoDup (map a_relay l) ->
  NoDup (map a_relay l') /\ (forall r, In r (map a_relay l') -> In r (map a_relay l)).
Proof.
  induction l as [|a l IH]; cbn [tick_allocs]; intros l' ev H Hnd; [inversion H; subst; split; auto|].
  destruct (tick_alloc t a) as [oa e1] eqn:H1. destruct (tick_allocs t l) as [r e2] eqn:H2.
  inversion H; subst; clear H. inversion Hnd as [|? ? Hx Hl]; subst. destruct (IH _ _ eq_refl Hl) as [I1 I2].
  unfold tick_alloc in H1. destruct (a_dl a <=? t); inversion H1; subst; clear H1.
  - split; [exact I1|]. intros r0 Hr. right. auto.
  - cbn. split; [constructor; [intros Hin; apply Hx; auto|exact I1]|]. intros r0 [E|Hr]; auto.
Qed.

Lemma relays_unique_step cfg s e s' acts : inv cfg s -> relays_unique s -> env_fresh s e -> step cfg s e = (s', acts) -> relays_unique s'.
Proof.
  intros Hinv Hu He H. pose proof Hinv as [Hnd _]. unfold relays_unique in *.
  assert (Same : s' = s -> NoDup (map a_relay (allocs s'))) by (intros ->; exact Hu).
  assert (Repl : forall a x, In a (allocs s) -> same_id a x -> NoDup (map a_relay (replace_alloc x (allocs s)))).
  { intros a x Ha (Hc & Hr & _). rewrite (replace_alloc_map_relay a x); auto. }
  destruct e as [src tid c r unk|src p d|src n d|relay from d|dt|relay|csrc| |]; cbn [step] in H.
  - destruct unk; [inversion H; subst; apply Same; reflexivity|].
    destruct r as [tr lt fam df rp ep rt mt|lt fam|peers|n p|]; try (inversion H; subst; apply Same; reflexivity);
      destruct (authenticate cfg s c) as [uid|code ch]; try (inversion H; subst; apply Same; reflexivity).
    + unfold h_allocate in H. repeat (dmatch H; try (inversion H; subst; apply Same; reflexivity)).
      all: inversion H; subst; clear H; cbn [allocs set_allocs add_rsv]; rewrite map_app; cbn [map].
      all: apply NoDup_app_single; [exact Hu|]; intros Hin; apply in_map_iff in Hin as (y & E & Hy);
           cbn [env_fresh] in He; apply (He y Hy); rewrite E; reflexivity.
    + unfold h_refresh in H. cbv zeta in H.
      destruct (owned_alloc s src uid) as [a|] eqn:Ho; [|inversion H; subst; apply Same; reflexivity].
      apply owned_alloc_some in Ho as (Ha & _ & _).
      repeat (dmatch H; try (inversion H; subst; apply Same; reflexivity)).
      all: inversion H; subst; clear H; cbn [allocs set_allocs].
      all: try (apply remove_alloc_relays; exact Hu).
      all: eapply Repl; [exact Ha|]; unfold same_id; cbn; auto 10.
    + unfold h_create_perm in H.
      destruct (owned_alloc s src uid) as [a|] eqn:Ho; [|inversion H; subst; apply Same; reflexivity].
      apply owned_alloc_some in Ho as (Ha & _ & _).
      destruct (perm_check cfg a peers); [inversion H; subst; apply Same; reflexivity|].
      destruct peers as [|q peers]; [inversion H; subst; apply Same; reflexivity|].
      destruct (install_perms a (now s + cfg_perm_timeout cfg) (q :: peers)) as [a1 evs] eqn:Hi.
      inversion H; subst; clear H. cbn [allocs set_allocs].
      eapply Repl; [exact Ha|eapply install_perms_id; eauto].
    + unfold h_channel_bind in H.
      destruct (owned_alloc s src uid) as [a|] eqn:Ho; [|inversion H; subst; apply Same; reflexivity].
      apply owned_alloc_some in Ho as (Ha & _ & _).
      repeat (dmatch H; try (inversion H; subst; apply Same; reflexivity)).
      all: inversion H; subst; clear H; cbn [allocs set_allocs].
      all: match goal with E : add_perm _ _ _ = (?x, _) |- _ => apply add_perm_id in E;
             eapply Repl; [exact Ha|]; unfold same_id in *; cbn in *; intuition congruence end.
  - unfold h_send in H. repeat (dmatch H; try (inversion H; subst; apply Same; reflexivity)).
  - unfold h_chandata in H. repeat (dmatch H; try (inversion H; subst; apply Same; reflexivity)).
  - unfold h_peer in H. repeat (dmatch H; try (inversion H; subst; apply Same; reflexivity)).
  - unfold h_tick in H. destruct (tick_allocs (now s + Z.max 0 dt) (allocs s)) as [l evs] eqn:Ht.
    inversion H; subst; clear H. cbn [allocs]. eapply tick_allocs_relays; eauto.
  - unfold h_relay_err in H. destruct (find_relay relay (allocs s)) as [a|]; inversion H; subst; [|apply Same; reflexivity].
    cbn [allocs set_allocs]. apply remove_alloc_relays. exact Hu.
  - unfold h_ctl_close in H. destruct (find_alloc csrc (allocs s)) as [a|]; inversion H; subst; [|apply Same; reflexivity].
    cbn [allocs set_allocs]. apply remove_alloc_relays. exact Hu.
  - inversion H; subst. cbn. constructor.
  - inversion H; subst. apply Same; reflexivity.
Qed.

Lemma no_error_in_life l d m t c ch : Forall RelayGates.is_life l -> ~ In (Error d m t c ch) l.
Proof. intros H Hin. rewrite Forall_forall in H. apply H in Hin. exact Hin. Qed.

(* an error answer means the request changed nothing, and the error is all that happened *)
Theorem error_means_unchanged cfg s src tid c r unk s' acts d m t code ch :
  step cfg s (EReq src tid c r unk) = (s', acts) -> In (Error d m t code ch) acts ->
  s' = s /\ acts = [Error d m t code ch].
Proof.
  cbn [step]. intros H Hin.
  assert (Leaf : forall x, (s', acts) = (s, [x]) -> s' = s /\ acts = [Error d m t code ch]).
  { intros x E. inversion E; subst. destruct Hin as [->|[]]. auto. }
  destruct unk; [apply (Leaf _ (eq_sym H))|].
  destruct r as [tr lt fam df rp ep rt mt|lt fam|peers|n p|]; try (apply (Leaf _ (eq_sym H)); fail);
    destruct (authenticate cfg s c) as [uid|code0 ch0]; try (apply (Leaf _ (eq_sym H)); fail).
  - unfold h_allocate in H. repeat (dmatch H; try (apply (Leaf _ (eq_sym H)); fail)).
    all: exfalso; inversion H; subst; cbn in Hin; intuition discriminate.
  - unfold h_refresh in H. cbv zeta in H.
    destruct (owned_alloc s src uid) as [a|]; [|inversion H; subst; destruct Hin].
    repeat (dmatch H; try (apply (Leaf _ (eq_sym H)); fail)).
    all: exfalso; inversion H; subst; try (cbn in Hin; intuition discriminate).
    all: apply in_app_iff in Hin as [Hin|Hin]; [eapply no_error_in_life; [apply close_events_life|exact Hin]|cbn in Hin; intuition discriminate].
  - unfold h_create_perm in H.
    destruct (owned_alloc s src uid) as [a|]; [|inversion H; subst; destruct Hin].
    destruct (perm_check cfg a peers); [apply (Leaf _ (eq_sym H))|].
    destruct peers as [|q peers]; [apply (Leaf _ (eq_sym H))|].
    destruct (install_perms a _ (q :: peers)) as [a' evs] eqn:Hi. exfalso. inversion H; subst.
    apply install_perms_life in Hi. apply in_app_iff in Hin as [Hin|Hin]; [eapply no_error_in_life; eauto|cbn in Hin; intuition discriminate].
  - unfold h_channel_bind in H.
    destruct (owned_alloc s src uid) as [a|]; [|inversion H; subst; destruct Hin].
    repeat (dmatch H; try (apply (Leaf _ (eq_sym H)); fail)).
    all: exfalso; inversion H; subst; match goal with Ha : add_perm _ _ _ = (_, _) |- _ => apply add_perm_life in Ha end.
    all: apply in_app_iff in Hin as [Hin|Hin]; [eapply no_error_in_life; eauto|cbn in Hin; intuition discriminate].
Qed.

Definition cache_ok (a : alloc) : Prop :=
  mapped_attr (a_cache a) = Some (a_client a) /\ relayed_attr (a_cache a) = Some (a_relay a).

Lemma cache_step cfg s e s' acts : Forall cache_ok (allocs s) -> step cfg s e = (s', acts) -> Forall cache_ok (allocs s').
Proof.
  intros Hc Hs. rewrite Forall_forall in *. intros a' Hin.
  destruct (step_frame _ _ _ _ _ Hs _ Hin) as [(a & Ha & (Ecl & Er & _ & _ & _ & Eca & _))|(_ & _ & _ & _ & _ & _ & M & R)].
  - unfold cache_ok. rewrite Eca, Ecl, Er. apply Hc. exact Ha.
  - split; assumption.
Qed.

Lemma relay_count_zero r l : ~ In r (map a_relay l) -> filter (fun x => addr_eqb (oa_relay x) r) (map obs_of l) = [].
Proof.
  induction l as [|x l IH]; cbn; [reflexivity|]. intros H. destruct (addr_eqb (a_relay x) r) eqn:E.
  - apply addr_eqb_eq in E. exfalso. apply H. left. exact E.
  - apply IH. intros Hin. apply H. right. exact Hin.
Qed.

Lemma relay_count_one l a : NoDup (map a_relay l) -> In a l ->
  length (filter (fun x => addr_eqb (oa_relay x) (a_relay a)) (map obs_of l)) = 1%nat.
Proof.
  induction l as [|x l IH]; cbn [map filter]; [contradiction|]. intros Hnd Hin. inversion Hnd as [|? ? Hx Hl]; subst.
  cbn [obs_of oa_relay]. destruct (addr_eqb (a_relay x) (a_relay a)) eqn:E.
  - apply addr_eqb_eq in E. cbn [length]. rewrite relay_count_zero; [reflexivity|]. rewrite <- E. exact Hx.
  - destruct Hin as [->|Hin]; [rewrite addr_eqb_refl in E; discriminate|]. apply IH; assumption.
Qed.

Lemma find_alloc_app_new c l a : find_alloc c l = None -> a_client a = c -> find_alloc c (l ++ [a]) = Some a.
Proof.
  induction l as [|x l IH]; cbn; intros Hn Hc.
  - rewrite Hc, addr_eqb_refl. reflexivity.
  - destruct (addr_eqb (a_client x) c); [discriminate|]. apply IH; assumption.
Qed.

Lemma replies_nil_non_req cfg s e s' acts : step cfg s e = (s', acts) ->
  match e with EReq _ _ _ _ _ => False | _ => True end -> replies acts = [].
Proof.
  intros Hs Hne. destruct e as [src tid c r unk|src p d|src n d|relay from d|dt|relay|csrc| |]; [contradiction| | | | | | | |]; cbn [step] in Hs.
  - apply h_send_spec in Hs as [_ [->|(a & q & dd & pm & -> & _)]]; reflexivity.
  - apply h_chandata_spec in Hs as [_ [->|(a & c & -> & _)]]; reflexivity.
  - apply h_peer_spec in Hs as [_ [->|(a & _ & _ & _ & [(c & _ & ->)|(_ & pm & _ & ->)])]]; reflexivity.
  - unfold h_tick in Hs. destruct (tick_allocs _ _) as [l evs] eqn:Ht. inversion Hs; subst.
    apply replies_life. eapply tick_allocs_life; eauto.
  - unfold h_relay_err in Hs. destruct (find_relay relay (allocs s)); inversion Hs; subst; [|reflexivity].
    apply replies_life. apply close_events_life.
  - apply replies_life. eapply h_ctl_close_life; eauto.
  - apply replies_life. eapply h_srv_close_life; eauto.
  - inversion Hs; subst. reflexivity.
Qed.

Lemma chk_C19_step_model cfg s e s' acts :
  inv cfg s -> relays_unique s -> Forall cache_ok (allocs s) -> env_fresh s e -> step cfg s e = (s', acts) ->
  chk_C19_step (listing_of s) {| os_ev := e; os_acts := acts; os_allocs := listing_of s' |} = true.
Proof.
  intros Hinv Hu Hca Henv Hs. unfold chk_C19_step. cbn [os_ev os_acts os_allocs].
  destruct e as [src tid c r unk|src p d|src n d|relay from d|dt|relay|csrc| |];
    try (rewrite (replies_nil_non_req _ _ _ _ _ Hs I); reflexivity).
  destruct (req_shape _ _ _ _ _ _ _ _ _ Hs) as (evs & tail & Eacts & Hlife & Htail).
  rewrite Eacts, replies_app, (replies_life _ Hlife). cbn [app].
  destruct Htail as [->|[(at_ & ->)|(code & ch & ->)]]; [reflexivity| |].
  2:{ (* an error: nothing changed *)
    cbn [replies filter]. rewrite addr_eqb_refl, N.eqb_refl. 
    assert (Hin : In (Error src (req_method r) tid code ch) acts) by (rewrite Eacts; apply in_or_app; right; left; reflexivity).
    destruct (error_means_unchanged _ _ _ _ _ _ _ _ _ _ _ _ _ _ Hs Hin) as [-> Ea].
    rewrite mset_eqb_refl. rewrite <- Eacts, Ea. cbn [lifes filter RelayCheck.is_life].
    assert (Hm : method_eqb (req_method r) (req_method r) = true) by (destruct (req_method r); reflexivity).
    rewrite Hm. cbn [andb].
    destruct r as [tr lt fam df rp ep rt mt|lt fam|peers|n p|]; try (destruct (code =? 437)%N; reflexivity).
    rewrite listing_of_map, find_oalloc_listing. destruct (find_alloc src (allocs s)) as [a|] eqn:Hf; [|destruct (code =? 437)%N; reflexivity].
    cbn [option_map]. cbn [req_method] in Hin.
    destruct (allocate_held_error_codes _ _ _ _ _ _ _ _ _ _ _ _ _ _ _ _ _ _ _ Hs Hf Hin) as [[-> ->]|[ ->|[ ->|[ ->| ->]]]]; reflexivity. }
  (* a success *)
  cbn [replies filter]. rewrite addr_eqb_refl, N.eqb_refl.
  assert (Hm : method_eqb (req_method r) (req_method r) = true) by (destruct (req_method r); reflexivity).
  rewrite Hm. cbn [andb].
  assert (Hin : In (Success src (req_method r) tid at_) acts) by (rewrite Eacts; apply in_or_app; right; left; reflexivity).
  destruct r as [tr lt fam df rp ep rt mt|lt fam|peers|n p|]; try reflexivity.
  - (* Allocate *)
    cbn [req_method] in *. pose proof Hs as Hs0. cbn [step] in Hs.
    destruct unk; [inversion Hs as [[Es Ea]]; rewrite <- Ea in Hin; cbn in Hin; destruct Hin as [E|[]]; discriminate|].
    destruct (authenticate cfg s c) as [uid|code ch] eqn:Ha; [|inversion Hs as [[Es Ea]]; rewrite <- Ea in Hin; cbn in Hin; destruct Hin as [E|[]]; discriminate].
    destruct (find_alloc src (allocs s)) as [a|] eqn:Hf.
    + (* retransmission *)
      rewrite (allocate_existing _ _ _ _ _ _ _ _ _ _ _ _ _ _ _ Ha Hf) in Hs0.
      destruct (a_tid a =? tid)%N; inversion Hs0 as [[Es Ea]]; clear Hs0; rewrite <- Ea in Hin; [|cbn in Hin; destruct Hin as [E|[]]; discriminate].
      subst s'. destruct Hin as [E|[]]. inversion E; subst at_.
      pose proof (find_alloc_some _ _ _ Hf) as [Hain Hcl].
      rewrite Forall_forall in Hca. destruct (Hca _ Hain) as [Hmap Hrel]. rewrite Hmap, Hrel, Hcl. cbn [opt_eqb].
      rewrite addr_eqb_refl. cbn [andb]. rewrite listing_of_map, find_oalloc_listing, Hf. cbn [option_map obs_of oa_relay].
      rewrite addr_eqb_refl, (relay_count_one _ _ Hu Hain), mset_eqb_refl. rewrite <- Ea in Eacts.
      destruct evs as [|x evs]; [reflexivity|]. exfalso.
      apply (f_equal (@length _)) in Eacts. rewrite app_length in Eacts. cbn in Eacts. lia.
    + (* a new allocation *)
      destruct (allocate_success _ _ _ _ _ _ _ _ _ _ _ _ _ _ _ _ Hs0 Hin Hf) as (a & relay & Hal & Hcl & Hrl & _ & _ & _ & Hat & _).
      subst at_. cbn [app mapped_attr relayed_attr find]. cbn [opt_eqb]. rewrite addr_eqb_refl. cbn [andb].
      rewrite !listing_of_map, !find_oalloc_listing, Hf, Hal, (find_alloc_app_new _ _ _ Hf Hcl).
      cbn [option_map obs_of oa_relay]. rewrite Hrl, addr_eqb_refl. cbn [andb].
      pose proof (relays_unique_step _ _ _ _ _ Hinv Hu Henv Hs0) as Hu'. unfold relays_unique in Hu'. rewrite Hal in Hu'.
      rewrite <- Hrl. rewrite (relay_count_one _ a Hu'); [reflexivity|]. apply in_or_app. right. left. reflexivity.
  - (* Binding *)
    cbn [step] in Hs. destruct unk; inversion Hs as [[Es Ea]]; rewrite <- Ea in Hin; cbn in Hin; destruct Hin as [E|[]]; try discriminate.
    inversion E; subst at_. cbn. rewrite addr_eqb_refl. reflexivity.
Qed.

(* ---------- C19: a retransmitted Allocate gets the same success again ---------- *)
Lemma find_alloc_in_nodup l a : NoDup (map a_client l) -> In a l -> find_alloc (a_client a) l = Some a.
Proof.
  induction l as [|x l IH]; cbn; [contradiction|]. intros Hnd Hin. inversion Hnd as [|? ? Hx Hl]; subst.
  destruct Hin as [->|Hin]; [rewrite addr_eqb_refl; reflexivity|].
  destruct (addr_eqb (a_client x) (a_client a)) eqn:E; [|apply IH; assumption].
  apply addr_eqb_eq in E. exfalso. apply Hx. rewrite E. apply in_map. exact Hin.
Qed.

Lemma aget_filter_key {V} (P : addr -> bool) (l : list (addr * V)) c :
  aget addr_eqb c (filter (fun p => P (fst p)) l) = if P c then aget addr_eqb c l else None.
Proof.
  induction l as [|[k v] l IH]; cbn [filter aget fst]; [destruct (P c); reflexivity|].
  destruct (P k) eqn:Pk; cbn [aget].
  - destruct (addr_eqb c k) eqn:E; [apply addr_eqb_eq in E; subst; rewrite Pk; reflexivity|exact IH].
  - destruct (addr_eqb c k) eqn:E; [apply addr_eqb_eq in E; subst; rewrite Pk in IH |- *; exact IH|exact IH].
Qed.

Lemma aget_adel_other {V} (l : list (addr * V)) c k : addr_eqb c k = false -> aget addr_eqb c (adel addr_eqb k l) = aget addr_eqb c l.
Proof.
  intros Hne. induction l as [|[k' v] l IH]; cbn [adel aget]; [reflexivity|].
  destruct (addr_eqb k k') eqn:E.
  - apply addr_eqb_eq in E. subst k'. rewrite Hne. exact IH.
  - cbn [aget]. rewrite IH. reflexivity.
Qed.

Lemma aget_aset {V} (l : list (addr * V)) c k v :
  aget addr_eqb c (aset addr_eqb k v l) = if addr_eqb c k then Some v else aget addr_eqb c l.
Proof. unfold aset. cbn [aget]. destruct (addr_eqb c k) eqn:E; [reflexivity|apply aget_adel_other; exact E]. Qed.

Lemma sattr_eqb_refl a : sattr_eqb a a = true.
Proof. destruct a; cbn; rewrite ?addr_eqb_refl, ?Z.eqb_refl, ?N.eqb_refl; reflexivity. Qed.
Lemma list_eqb_refl {A} (f : A -> A -> bool) (Hf : forall a, f a a = true) l : list_eqb f l l = true.
Proof. induction l as [|x l IH]; cbn; [reflexivity|]. rewrite Hf, IH. reflexivity. Qed.

Definition seen_inv (seen : list (addr * list sattr)) (s : state) : Prop :=
  forall c at_ a, aget addr_eqb c seen = Some at_ -> find_alloc c (allocs s) = Some a -> a_cache a = at_.
Definition present (s : state) (c : addr) : bool :=
  match find_oalloc c (listing_of s) with Some _ => true | None => false end.

Lemma present_spec s c : present s c = true <-> find_alloc c (allocs s) <> None.
Proof.
  unfold present. rewrite listing_of_map, find_oalloc_listing. destruct (find_alloc c (allocs s)); cbn; split; congruence.
Qed.

(* entries of clients that have an allocation stay right across any step *)
Lemma seen_pres cfg s e s' acts seen : inv cfg s -> step cfg s e = (s', acts) ->
  seen_inv seen s -> (forall c at_, aget addr_eqb c seen = Some at_ -> present s c = true) -> seen_inv seen s'.
Proof.
  intros [Hnd _] Hs Hinv Hpres c at_ a' Hg Hf.
  apply find_alloc_some in Hf as [Hin' Hc'].
  destruct (step_frame _ _ _ _ _ Hs _ Hin') as [(a & Ha & (Ecl & _ & _ & _ & _ & Eca & _))|(_ & Hnone & _)].
  - rewrite Eca. eapply Hinv; [exact Hg|]. rewrite <- Hc', Ecl. apply find_alloc_in_nodup; assumption.
  - exfalso. apply (proj1 (present_spec s c) (Hpres _ _ Hg)). rewrite <- Hc'. exact Hnone.
Qed.

Lemma allocate_new_cache cfg s src tid c tr lt fam df rp ep rt mt s' acts attrs :
  step cfg s (EReq src tid c (RqAllocate tr lt fam df rp ep rt mt) false) = (s', acts) ->
  In (Success src MAllocate tid attrs) acts -> find_alloc src (allocs s) = None ->
  exists a, allocs s' = allocs s ++ [a] /\ a_client a = src /\ a_cache a = attrs.
Proof.
  cbn [step]. intros H Hin Hnone.
  destruct (authenticate cfg s c) as [uid|code ch] eqn:Ha; [|inversion H; subst; cbn in Hin; intuition discriminate].
  unfold h_allocate in H. rewrite Hnone in H.
  repeat (dmatch H; try (inversion H; subst; cbn in Hin; intuition discriminate)).
  all: inversion H; subst; cbn in Hin; destruct Hin as [Hin|[Hin|[]]]; try discriminate; inversion Hin; subst.
  all: eexists; cbn; repeat split; eauto.
Qed.

Lemma chk_C19_cache_model cfg h : forall s seen, inv cfg s -> seen_inv seen s ->
  chk_C19_cache seen (listing_of s) (model_trace cfg s h) = true.
Proof.
  induction h as [|e r IH]; intros s seen Hinv Hseen; cbn [model_trace chk_C19_cache]; [reflexivity|].
  destruct (step cfg s e) as [s' acts] eqn:Hs. cbn [chk_C19_cache os_ev os_acts os_allocs].
  set (seen1 := filter (fun p => match find_oalloc (fst p) (listing_of s) with Some _ => true | None => false end) seen).
  assert (Hg1 : forall c at_, aget addr_eqb c seen1 = Some at_ -> aget addr_eqb c seen = Some at_ /\ present s c = true).
  { intros c at_ Hg. unfold seen1 in Hg.
    change (filter _ seen) with (filter (fun p : addr * list sattr => present s (fst p)) seen) in Hg.
    rewrite (aget_filter_key (present s)) in Hg. destruct (present s c); [auto|discriminate]. }
  assert (Hs1 : seen_inv seen1 s) by (intros c at_ a Hg Hf; eapply Hseen; [apply (Hg1 _ _ Hg)|exact Hf]).
  assert (Hp1 : forall c at_, aget addr_eqb c seen1 = Some at_ -> present s c = true) by (intros c at_ Hg; apply (Hg1 _ _ Hg)).
  pose proof (inv_step _ _ _ _ _ Hinv Hs) as Hinv'.
  pose proof (seen_pres _ _ _ _ _ _ Hinv Hs Hs1 Hp1) as Hdef.
  assert (Default : chk_C19_cache seen1 (listing_of s') (model_trace cfg s' r) = true) by (apply IH; assumption).
  destruct e as [src tid c rq unk|src p d|src n d|relay from d|dt|relay|csrc| |]; try exact Default.
  destruct rq as [tr lt fam df rp ep rt mt|? ?|?|? ?|]; try exact Default.
  destruct (req_shape _ _ _ _ _ _ _ _ _ Hs) as (evs & tail & Eacts & Hlife & Htail). cbn [req_method] in Htail.
  rewrite Eacts, replies_app, (replies_life _ Hlife). cbn [app].
  destruct Htail as [->|[(at_ & ->)|(code & ch & ->)]]; [exact Default| |exact Default].
  cbn [replies filter].
  assert (Hin : In (Success src MAllocate tid at_) acts) by (rewrite Eacts; apply in_or_app; right; left; reflexivity).
  destruct unk; [cbn [step] in Hs; inversion Hs as [[Es Ea]]; rewrite <- Ea in Hin; cbn in Hin; destruct Hin as [E|[]]; discriminate|].
  rewrite listing_of_map, find_oalloc_listing. destruct (find_alloc src (allocs s)) as [a|] eqn:Hf; cbn [option_map].
  - (* retransmission: the cached attributes *)
    destruct (aget addr_eqb src seen1) as [first|] eqn:Hg; [|exact Default].
    pose proof Hs as Hs0. cbn [step] in Hs0.
    destruct (authenticate cfg s c) as [uid|code ch] eqn:Ha; [|inversion Hs0 as [[Es Ea]]; rewrite <- Ea in Hin; cbn in Hin; destruct Hin as [E|[]]; discriminate].
    rewrite (allocate_existing _ _ _ _ _ _ _ _ _ _ _ _ _ _ _ Ha Hf) in Hs.
    destruct (a_tid a =? tid)%N; inversion Hs as [[Es Ea]]; rewrite <- Ea in Hin; cbn in Hin; destruct Hin as [E|[]]; try discriminate.
    inversion E; subst at_. rewrite (Hs1 _ _ _ Hg Hf), (list_eqb_refl _ sattr_eqb_refl). exact Default.
  - (* a new allocation: remember what it was told *)
    destruct (allocate_new_cache _ _ _ _ _ _ _ _ _ _ _ _ _ _ _ _ Hs Hin Hf) as (a & Hal & Hcl & Hca).
    apply IH; [exact Hinv'|]. intros c0 at0 a0 Hg0 Hf0. rewrite aget_aset in Hg0.
    destruct (addr_eqb c0 src) eqn:E.
    + apply addr_eqb_eq in E. subst c0. inversion Hg0; subst at0. rewrite Hal, (find_alloc_app_new _ _ _ Hf Hcl) in Hf0.
      inversion Hf0 as [Ea0]. rewrite <- Ea0. exact Hca.
    + eapply Hdef; eauto.
Qed.

Lemma chk_C19_steps_model cfg h : forall s, inv cfg s -> relays_unique s -> Forall cache_ok (allocs s) -> env_ok cfg s h ->
  all_steps chk_C19_step (listing_of s) (model_trace cfg s h) = true.
Proof.
  induction h as [|e r IH]; intros s Hinv Hu Hca Henv; cbn [model_trace all_steps]; [reflexivity|].
  cbn [env_ok] in Henv. destruct Henv as [He Hr]. destruct (step cfg s e) as [s' acts] eqn:Hs. cbn [all_steps os_allocs fst] in *.
  rewrite (chk_C19_step_model _ _ _ _ _ Hinv Hu Hca He Hs). cbn.
  apply IH; [eapply inv_step; eauto|eapply relays_unique_step; eauto|eapply cache_step; eauto|exact Hr].
Qed.

(* for every configuration and every history in which the relay address generator never hands out a port that a live
   allocation holds: every response goes to the request's source with its transaction id and method; a Binding success
   and an Allocate success report the source address; an Allocate success reports the relayed address of the
   requester's allocation, which no other allocation has; a retransmitted Allocate creates nothing and gets exactly the
   attributes of the original success; 437 and every other error change nothing *)
Theorem chk_C19_model cfg ep h : env_ok cfg (init ep) h -> chk_C19 (model_case cfg ep h) = true.
Proof.
  intros Henv. unfold chk_C19, model_case. cbn [rc_steps]. apply andb_true_iff. split.
  - change (@nil obs_alloc) with (listing_of (init ep)).
    apply chk_C19_steps_model; [apply inv_init|constructor|constructor|exact Henv].
  - change (@nil obs_alloc) with (listing_of (init ep)). apply chk_C19_cache_model; [apply inv_init|].
    intros c at_ a Hg. discriminate.
Qed.
