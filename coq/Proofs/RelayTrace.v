(* The property predicates of Check/RelayProps.v - the ones evaluated on the IMPLEMENTATION's observed traces by the
   correspondence runs - hold on EVERY trace of the model, for every configuration and every history.
   Together with the step-by-step agreement the correspondence establishes, this is what connects "the model
   agrees with the code on this history" to "the property predicate holds on what the code did". *)
From Turn Require Import Bytes BytesP ChanData Relay RelayBase RelayInv RelayGates RelayLocal RelayMore RelayBalance.
From Turn Require Import Common RelayCheck RelayProps.
From Coq Require Import ZifyN ZifyNat ZifyBool.
Open Scope Z_scope.

(* the trace the model produces for a history: per event, its actions and the listing of the state afterwards *)
Fixpoint model_trace (cfg : config) (s : state) (h : list event) : list ostep :=
  match h with
  | [] => []
  | e :: r =>
      let '(s', acts) := step cfg s e in
      {| os_ev := e; os_acts := acts; os_allocs := listing_of s' |} :: model_trace cfg s' r
  end.

Definition model_case (cfg : config) (ep : Z) (h : list event) : rcase :=
  {| rc_cfg := cfg; rc_epoch := ep; rc_steps := model_trace cfg (init ep) h |}.

(* ---------- listing lemmas ---------- *)
Definition obs_of (a : alloc) : obs_alloc :=
  {| oa_client := a_client a; oa_relay := a_relay a; oa_perms := map p_ip (a_perms a);
     oa_chans := map (fun c => (c_num c, c_peer c)) (a_chans a) |}.

Lemma listing_of_map s : listing_of s = map obs_of (allocs s).
Proof. reflexivity. Qed.

Lemma find_oalloc_listing c l : find_oalloc c (map obs_of l) = option_map obs_of (find_alloc c l).
Proof.
  unfold find_oalloc. induction l as [|a l IH]; cbn; [reflexivity|].
  destruct (addr_eqb (a_client a) c); [reflexivity|exact IH].
Qed.

Lemma find_orelay_listing r l : find_orelay r (map obs_of l) = option_map obs_of (find_relay r l).
Proof.
  unfold find_orelay. induction l as [|a l IH]; cbn; [reflexivity|].
  destruct (addr_eqb (a_relay a) r); [reflexivity|exact IH].
Qed.

Lemma find_perm_has i l p : find_perm i l = Some p -> existsb (N.eqb i) (map p_ip l) = true.
Proof.
  induction l as [|x l IH]; cbn; [discriminate|].
  destruct (p_ip x =? i)%N eqn:E.
  - intros _. apply N.eqb_eq in E. rewrite E, N.eqb_refl. reflexivity.
  - intros H. rewrite (IH H). apply orb_true_r.
Qed.

Lemma find_chan_num_has n l c : find_chan_num n l = Some c ->
  existsb (chanpair_eqb (n, c_peer c)) (map (fun c => (c_num c, c_peer c)) l) = true.
Proof.
  induction l as [|x l IH]; cbn [find_chan_num map existsb]; [discriminate|].
  destruct (c_num x =? n)%N eqn:E.
  - intros H. inversion H; subst. apply N.eqb_eq in E. unfold chanpair_eqb. cbn. rewrite E, N.eqb_refl, addr_eqb_refl. reflexivity.
  - intros H. rewrite (IH H). apply orb_true_r.
Qed.

Lemma find_chan_peer_has p l c : find_chan_peer p l = Some c ->
  existsb (chanpair_eqb (c_num c, p)) (map (fun c => (c_num c, c_peer c)) l) = true.
Proof.
  induction l as [|x l IH]; cbn [find_chan_peer map existsb]; [discriminate|].
  destruct (addr_eqb (c_peer x) p) eqn:E.
  - intros H. inversion H; subst. apply addr_eqb_eq in E. unfold chanpair_eqb. cbn. rewrite E, N.eqb_refl, addr_eqb_refl. reflexivity.
  - intros H. rewrite (IH H). apply orb_true_r.
Qed.

(* ---------- the generic lift: a per-step fact that holds from every invariant state holds along the trace ---------- *)
Lemma all_steps_model cfg (f : list obs_alloc -> ostep -> bool) :
  (forall s e s' acts, inv cfg s -> step cfg s e = (s', acts) ->
     f (listing_of s) {| os_ev := e; os_acts := acts; os_allocs := listing_of s' |} = true) ->
  forall h s, inv cfg s -> all_steps f (listing_of s) (model_trace cfg s h) = true.
Proof.
  intros Hstep. induction h as [|e r IH]; intros s Hinv; cbn [model_trace all_steps]; [reflexivity|].
  destruct (step cfg s e) as [s' acts] eqn:Hs. cbn [all_steps os_allocs].
  rewrite (Hstep _ _ _ _ Hinv Hs). cbn. apply IH. eapply inv_step; eauto.
Qed.

(* ---------- C02 gate: data reaches a client only from a peer datagram, through a present binding/permission ---------- *)
Lemma todata_nil_of cfg s e s' acts : step cfg s e = (s', acts) ->
  match e with EPeer _ _ _ => False | _ => True end -> todata acts = [].
Proof.
  intros Hs Hne. unfold todata.
  assert (F : Forall (fun a => match a with DataInd _ _ _ | ChanDataOut _ _ _ => False | _ => True end) acts).
  { rewrite Forall_forall. intros a Hin. pose proof (to_client_data_only_from_peer cfg s e s' acts Hs) as T.
    destruct a; auto.
    - assert (exists relay from d, e = EPeer relay from d) as (r & f & dd & E) by (apply T; left; eauto). subst e. contradiction.
    - assert (exists relay from d, e = EPeer relay from d) as (r & f & dd & E) by (apply T; right; eauto). subst e. contradiction. }
  clear Hs. induction acts as [|a l IH]; cbn; [reflexivity|]. inversion F as [|? ? Ha Hl]; subst.
  destruct a; cbn in Ha |- *; try contradiction; apply IH; exact Hl.
Qed.

Lemma chk_C02_step_model cfg s e s' acts : inv cfg s -> step cfg s e = (s', acts) ->
  chk_C02_step (listing_of s) {| os_ev := e; os_acts := acts; os_allocs := listing_of s' |} = true.
Proof.
  intros _ Hs. unfold chk_C02_step. cbn [os_ev os_acts].
  destruct e as [src tid c rq unk|src p dat|src n dat|relay from dat|dt|relay];
    try (rewrite (todata_nil_of _ _ _ _ _ Hs I); reflexivity).
  cbn [step] in Hs. apply h_peer_spec in Hs as [_ [->|(a & Hf & _ & _ & [(c & Hc & ->)|(_ & pm & Hp & ->)])]]; [reflexivity| |].
  - cbn [todata filter]. rewrite listing_of_map, find_orelay_listing, Hf. cbn [option_map obs_of oa_client].
    rewrite addr_eqb_refl, beqb_refl. unfold has_chan, obs_of. cbn [oa_chans]. rewrite (find_chan_peer_has _ _ _ Hc). reflexivity.
  - cbn [todata filter]. rewrite listing_of_map, find_orelay_listing, Hf. cbn [option_map obs_of oa_client].
    rewrite !addr_eqb_refl, beqb_refl. unfold has_perm, obs_of. cbn [oa_perms]. rewrite (find_perm_has _ _ _ Hp). reflexivity.
Qed.

(* for every configuration and every history: on the model's own trace, data is delivered to a client only for a
   datagram that arrived at its relayed address, to the owner, unmodified, through a binding of the exact source or a
   permission for its IP that is present in the state before the event *)
Theorem chk_C02_gate_model cfg ep h : chk_C02_gate (model_case cfg ep h) = true.
Proof.
  unfold chk_C02_gate, model_case. cbn [rc_steps].
  apply (all_steps_model cfg chk_C02_step (chk_C02_step_model cfg) h (init ep)). apply inv_init.
Qed.

(* ---------- C15: callbacks balance against what exists, on every model trace ---------- *)
Lemma count_life_w (acts : list action) :
  count_life (fun e => match e with LAllocCreated _ _ _ => true | _ => false end) acts
    - count_life (fun e => match e with LAllocDeleted _ _ => true | _ => false end) acts = sumw wA acts /\
  count_life (fun e => match e with LPermCreated _ _ => true | _ => false end) acts
    - count_life (fun e => match e with LPermDeleted _ _ => true | _ => false end) acts = sumw wP acts /\
  count_life (fun e => match e with LChanCreated _ _ _ => true | _ => false end) acts
    - count_life (fun e => match e with LChanDeleted _ _ _ => true | _ => false end) acts = sumw wC acts.
Proof.
  unfold count_life. induction acts as [|a l IH]; cbn [filter length sumw fold_right]; [cbn; lia|].
  destruct IH as (I1 & I2 & I3). fold (sumw wA l) (sumw wP l) (sumw wC l).
  destruct a as [| | | | |e]; try (cbn [wA wP wC]; lia).
  destruct e; cbn [wA wP wC length]; lia.
Qed.

Lemma listing_counts l :
  Z.of_nat (length (map obs_of l)) = nA l /\
  Z.of_nat (length (flat_map oa_perms (map obs_of l))) = nP l /\
  Z.of_nat (length (flat_map oa_chans (map obs_of l))) = nC l.
Proof.
  unfold nA, nP, nC. induction l as [|a l (I1 & I2 & I3)]; cbn [map flat_map length fold_right]; [cbn; lia|].
  rewrite !app_length. cbn [obs_of oa_perms oa_chans]. rewrite !map_length. lia.
Qed.

Lemma chk_C15_model cfg h : forall s, inv cfg s ->
  chk_C15_from (nA (allocs s)) (nP (allocs s)) (nC (allocs s)) (model_trace cfg s h) = true.
Proof.
  induction h as [|e r IH]; intros s Hinv; cbn [model_trace chk_C15_from]; [reflexivity|].
  destruct (step cfg s e) as [s' acts] eqn:Hs. cbn [chk_C15_from os_acts os_allocs].
  destruct (balance_step _ _ _ _ _ Hinv Hs) as (B1 & B2 & B3).
  destruct (count_life_w acts) as (W1 & W2 & W3).
  destruct (listing_counts (allocs s')) as (L1 & L2 & L3). rewrite listing_of_map.
  replace (nA (allocs s) + _ - _) with (nA (allocs s')) by lia.
  replace (nP (allocs s) + _ - _) with (nP (allocs s')) by lia.
  replace (nC (allocs s) + _ - _) with (nC (allocs s')) by lia.
  rewrite L1, L2, L3, !Z.eqb_refl. cbn. apply IH. eapply inv_step; eauto.
Qed.

(* for every configuration and every history: after every step of the model the Created minus Deleted callbacks
   announced so far equal the allocations, permissions and channels that exist *)
Theorem chk_C15_on_model cfg ep h : chk_C15 (model_case cfg ep h) = true.
Proof. unfold chk_C15, model_case. cbn [rc_steps]. apply (chk_C15_model cfg h (init ep)). apply inv_init. Qed.

(* ---------- what never changes about an allocation: a frame lemma ---------- *)
Definition same_id (a a' : alloc) : Prop :=
  a_client a' = a_client a /\ a_relay a' = a_relay a /\ a_fam a' = a_fam a /\ a_proto a' = a_proto a /\ a_user a' = a_user a.

Lemma same_id_refl a : same_id a a.
Proof. unfold same_id. auto 6. Qed.

Lemma add_perm_id a i dl a' ev : add_perm a i dl = (a', ev) -> same_id a a'.
Proof. unfold add_perm. intros H. inversion H; subst. unfold same_id; cbn. auto 6. Qed.

Lemma install_perms_id dl peers : forall a a' ev, install_perms a dl peers = (a', ev) -> same_id a a'.
Proof.
  induction peers as [|[p|] r IH]; cbn [install_perms]; intros a a' ev H.
  - inversion H; subst. apply same_id_refl.
  - destruct (add_perm a (ip p) dl) as [a1 e1] eqn:H1. destruct (install_perms a1 dl r) as [a2 e2] eqn:H2.
    inversion H; subst. apply add_perm_id in H1. apply IH in H2. unfold same_id in *. intuition congruence.
  - eapply IH; eauto.
Qed.

Lemma tick_allocs_id t l : forall l' ev, tick_allocs t l = (l', ev) ->
  forall a', In a' l' -> exists a, In a l /\ same_id a a'.
Proof.
  induction l as [|a l IH]; cbn [tick_allocs]; intros l' ev H a' Hin; [inversion H; subst; destruct Hin|].
  destruct (tick_alloc t a) as [oa e1] eqn:H1. destruct (tick_allocs t l) as [r e2] eqn:H2.
  inversion H; subst; clear H. unfold tick_alloc in H1.
  destruct (a_dl a <=? t).
  - inversion H1; subst. destruct (IH _ _ eq_refl _ Hin) as (x & Hx & Hs). exists x. split; [right; exact Hx|exact Hs].
  - inversion H1; subst; clear H1. destruct Hin as [<-|Hin].
    + exists a. split; [left; reflexivity|]. unfold same_id; cbn. auto 6.
    + destruct (IH _ _ eq_refl _ Hin) as (x & Hx & Hs). exists x. split; [right; exact Hx|exact Hs].
Qed.

(* an allocation of the state after a step is one of the state before with the same identity, or the one a successful
   Allocate has just created: for the requester, of a family 1 or 2, on the relay IP of that family *)
Definition fresh_alloc (cfg : config) (e : event) (a' : alloc) : Prop :=
  (exists src tid c r unk, e = EReq src tid c r unk /\ a_client a' = src) /\
  (a_fam a' = 1%N \/ a_fam a' = 2%N) /\
  ip (a_relay a') = (if (a_fam a' =? 2)%N then cfg_relay_ip6 cfg else cfg_relay_ip4 cfg) /\
  a_perms a' = [] /\ a_chans a' = [].

Lemma default_family_12 cfg src : default_family cfg src = 1%N \/ default_family cfg src = 2%N.
Proof.
  unfold default_family, fam_of. destruct (cfg_strict_family cfg); auto. destruct (cfg_listener cfg); auto.
  destruct (is_v4 (ip src)); auto.
Qed.

Theorem step_frame cfg s e s' acts : step cfg s e = (s', acts) ->
  forall a', In a' (allocs s') -> (exists a, In a (allocs s) /\ same_id a a') \/ fresh_alloc cfg e a'.
Proof.
  intros H a' Hin.
  assert (Same : s' = s -> (exists a, In a (allocs s) /\ same_id a a') \/ fresh_alloc cfg e a').
  { intros ->. left. exists a'. split; [exact Hin|apply same_id_refl]. }
  assert (Repl : forall a x, In a (allocs s) -> same_id a x -> In a' (replace_alloc x (allocs s)) ->
            (exists a0, In a0 (allocs s) /\ same_id a0 a') \/ fresh_alloc cfg e a').
  { intros a x Ha Hs Hi. left. apply replace_alloc_in in Hi as [->|Hi]; [exists a; auto|exists a'; split; [exact Hi|apply same_id_refl]]. }
  destruct e as [src tid c r unk|src p d|src n d|relay from d|dt|relay]; cbn [step] in H.
  - destruct unk; [inversion H; subst; apply Same; reflexivity|].
    destruct r as [tr lt fam df rp ep rt mt|lt fam|peers|n p|]; try (inversion H; subst; apply Same; reflexivity);
      destruct (authenticate cfg s c) as [uid|code ch]; try (inversion H; subst; apply Same; reflexivity).
    + unfold h_allocate in H. repeat (dmatch H; try (inversion H; subst; apply Same; reflexivity)).
      all: inversion H; subst; clear H; cbn [allocs set_allocs add_rsv] in Hin; apply in_app_iff in Hin as [Hin|[<-|[]]];
        [left; exists a'; split; [exact Hin|apply same_id_refl]|right].
      all: unfold fresh_alloc; cbn; splits; eauto 10.
      all: try (match goal with E : (_ =? 2)%N = _ |- _ => rewrite E; reflexivity end).
      all: match goal with E : match ?f with AAbsent => _ | ABadSize => _ | APresent _ => _ end = inl _ |- _ =>
             destruct f as [| |f0]; [inversion E; subst; apply default_family_12|discriminate|
               destruct ((f0 =? 1)%N || (f0 =? 2)%N) eqn:Ef; [|discriminate]; inversion E; subst;
               apply orb_true_iff in Ef as [Ef|Ef]; apply N.eqb_eq in Ef; auto] end.
    + unfold h_refresh in H. cbv zeta in H.
      destruct (owned_alloc s src uid) as [a|] eqn:Ho; [|inversion H; subst; apply Same; reflexivity].
      apply owned_alloc_some in Ho as (Ha & _ & _).
      repeat (dmatch H; try (inversion H; subst; apply Same; reflexivity)).
      all: inversion H; subst; clear H; cbn [allocs set_allocs] in Hin.
      all: try (left; apply remove_alloc_in in Hin; exists a'; split; [exact Hin|apply same_id_refl]).
      all: eapply Repl; [exact Ha| |exact Hin]; unfold same_id; cbn; auto 6.
    + unfold h_create_perm in H.
      destruct (owned_alloc s src uid) as [a|] eqn:Ho; [|inversion H; subst; apply Same; reflexivity].
      apply owned_alloc_some in Ho as (Ha & _ & _).
      destruct (perm_check cfg a peers); [inversion H; subst; apply Same; reflexivity|].
      destruct peers as [|q peers]; [inversion H; subst; apply Same; reflexivity|].
      destruct (install_perms a (now s + cfg_perm_timeout cfg) (q :: peers)) as [a1 evs] eqn:Hi.
      inversion H; subst; clear H. cbn [allocs set_allocs] in Hin.
      eapply Repl; [exact Ha|eapply install_perms_id; eauto|exact Hin].
    + unfold h_channel_bind in H.
      destruct (owned_alloc s src uid) as [a|] eqn:Ho; [|inversion H; subst; apply Same; reflexivity].
      apply owned_alloc_some in Ho as (Ha & _ & _).
      repeat (dmatch H; try (inversion H; subst; apply Same; reflexivity)).
      all: inversion H; subst; clear H; cbn [allocs set_allocs] in Hin.
      all: match goal with E : add_perm _ _ _ = (?x, _) |- _ => apply add_perm_id in E;
             eapply Repl; [exact Ha| |exact Hin]; unfold same_id in *; cbn in *; intuition congruence end.
  - unfold h_send in H. repeat (dmatch H; try (inversion H; subst; apply Same; reflexivity)).
  - unfold h_chandata in H. repeat (dmatch H; try (inversion H; subst; apply Same; reflexivity)).
  - unfold h_peer in H. repeat (dmatch H; try (inversion H; subst; apply Same; reflexivity)).
  - unfold h_tick in H. destruct (tick_allocs (now s + Z.max 0 dt) (allocs s)) as [l evs] eqn:Ht.
    inversion H; subst; clear H. cbn [allocs] in Hin. left. eapply tick_allocs_id; eauto.
  - unfold h_relay_err in H. destruct (find_relay relay (allocs s)) as [a|]; inversion H; subst; [|apply Same; reflexivity].
    cbn [allocs set_allocs] in Hin. left. apply remove_alloc_in in Hin. exists a'. split; [exact Hin|apply same_id_refl].
Qed.

(* the generic lift with an additional invariant *)
Lemma all_steps_model2 cfg (J : state -> Prop) (f : list obs_alloc -> ostep -> bool) :
  (forall s e s' acts, inv cfg s -> J s -> step cfg s e = (s', acts) -> J s') ->
  (forall s e s' acts, inv cfg s -> J s -> step cfg s e = (s', acts) ->
     f (listing_of s) {| os_ev := e; os_acts := acts; os_allocs := listing_of s' |} = true) ->
  forall h s, inv cfg s -> J s -> all_steps f (listing_of s) (model_trace cfg s h) = true.
Proof.
  intros HJ Hstep. induction h as [|e r IH]; intros s Hinv Hj; cbn [model_trace all_steps]; [reflexivity|].
  destruct (step cfg s e) as [s' acts] eqn:Hs. cbn [all_steps os_allocs].
  rewrite (Hstep _ _ _ _ Hinv Hj Hs). cbn. apply IH; [eapply inv_step; eauto|eapply HJ; eauto].
Qed.

(* ---------- C01 gate ---------- *)
(* the relay IPs of the configuration are of the family they are configured for *)
Definition cfg_relay_wf (cfg : config) : Prop := is_v4 (cfg_relay_ip4 cfg) = true /\ is_v4 (cfg_relay_ip6 cfg) = false.
Definition relfam (s : state) : Prop := Forall (fun a => fam_of (ip (a_relay a)) = a_fam a) (allocs s).

Lemma relfam_step cfg s e s' acts : cfg_relay_wf cfg -> relfam s -> step cfg s e = (s', acts) -> relfam s'.
Proof.
  intros [W4 W6] Hr Hs. unfold relfam in *. rewrite Forall_forall in *. intros a' Hin.
  destruct (step_frame _ _ _ _ _ Hs _ Hin) as [(a & Ha & (_ & Er & Ef & _))|(_ & Hf & Hip & _)].
  - rewrite Er, Ef. apply Hr. exact Ha.
  - unfold fam_of. rewrite Hip. destruct Hf as [E|E]; rewrite E; cbn; [rewrite W4|rewrite W6]; reflexivity.
Qed.

Lemma installed_ok_obs cfg a : alloc_ok cfg a -> fam_of (ip (a_relay a)) = a_fam a -> installed_ok cfg (obs_of a) = true.
Proof.
  intros (_ & _ & _ & _ & Hp & Hc) Hf. unfold installed_ok, oa_fam, obs_of. cbn [oa_perms oa_chans oa_client oa_relay].
  rewrite Hf. apply andb_true_iff. split; apply forallb_forall.
  - intros i Hi. destruct (Hp i Hi) as [A B]. rewrite A, B. reflexivity.
  - intros [n p] Hi. cbn [snd]. apply in_map_iff in Hi as (c & E & Hc'). inversion E; subst.
    destruct (Hc (c_peer c) (in_map _ _ _ Hc')) as [A B]. rewrite A, B. reflexivity.
Qed.

Lemma topeers_nil_of cfg s e s' acts : step cfg s e = (s', acts) ->
  match e with ESend _ _ _ | EChanData _ _ _ => False | _ => True end -> topeers acts = [].
Proof.
  intros Hs Hne. unfold topeers.
  assert (F : Forall (fun a => match a with ToPeer _ _ _ => False | _ => True end) acts).
  { rewrite Forall_forall. intros a Hin. destruct a; auto.
    destruct (topeer_only_from_send_or_chandata cfg s e s' acts _ _ _ Hs Hin) as [(x & y & z & E)|(x & y & z & E)]; subst e; contradiction. }
  clear Hs. induction acts as [|a l IH]; cbn; [reflexivity|]. inversion F as [|? ? Ha Hl]; subst.
  destruct a; cbn in Ha |- *; try contradiction; apply IH; exact Hl.
Qed.

Lemma chk_C01_step_model cfg s e s' acts : cfg_relay_wf cfg -> inv cfg s -> relfam s -> step cfg s e = (s', acts) ->
  chk_C01_step cfg (listing_of s) {| os_ev := e; os_acts := acts; os_allocs := listing_of s' |} = true.
Proof.
  intros Hw Hinv Hr Hs. unfold chk_C01_step. cbn [os_ev os_acts os_allocs].
  assert (Hinst : forallb (installed_ok cfg) (listing_of s') = true).
  { pose proof (inv_step _ _ _ _ _ Hinv Hs) as [_ Hall]. pose proof (relfam_step _ _ _ _ _ Hw Hr Hs) as Hr'.
    rewrite listing_of_map. apply forallb_forall. intros o Ho. apply in_map_iff in Ho as (a & <- & Ha).
    unfold relfam in Hr'. rewrite Forall_forall in Hall, Hr'. apply installed_ok_obs; auto. }
  rewrite Hinst. cbn [andb].
  destruct e as [src tid c rq unk|src p dat|src n dat|relay from dat|dt|relay];
    try (rewrite (topeers_nil_of _ _ _ _ _ Hs I); reflexivity).
  - cbn [step] in Hs. apply h_send_spec in Hs as [_ [->|(a & q & d & pm & -> & -> & -> & Hf & Hp & _)]]; [destruct p as [[?|]|], dat; reflexivity|].
    cbn [topeers filter]. rewrite listing_of_map, find_oalloc_listing, Hf. cbn [option_map obs_of oa_relay].
    rewrite !addr_eqb_refl, beqb_refl. unfold has_perm, obs_of. cbn [oa_perms]. rewrite (find_perm_has _ _ _ Hp). reflexivity.
  - cbn [step] in Hs. apply h_chandata_spec in Hs as [_ [->|(a & c & -> & Hf & Hc & _)]]; [reflexivity|].
    cbn [topeers filter]. rewrite listing_of_map, find_oalloc_listing, Hf. cbn [option_map obs_of oa_relay].
    rewrite !addr_eqb_refl, beqb_refl. unfold has_chan, obs_of. cbn [oa_chans]. rewrite (find_chan_num_has _ _ _ Hc). reflexivity.
Qed.

(* for every configuration (with relay IPs of their own family) and every history: on the model's own trace nothing
   vetoed or of the wrong family is ever installed, and data leaves toward a peer only for a Send indication /
   ChannelData of the owner, from its own relayed address, unmodified, through a permission / binding present
   before the event *)
Theorem chk_C01_gate_model cfg ep h : cfg_relay_wf cfg -> chk_C01_gate (model_case cfg ep h) = true.
Proof.
  intros Hw. unfold chk_C01_gate, model_case. cbn [rc_steps rc_cfg].
  change (@nil obs_alloc) with (listing_of (init ep)).
  apply (all_steps_model2 cfg relfam (chk_C01_step cfg)).
  - intros s e s' acts _ Hr Hs. eapply relfam_step; eauto.
  - intros s e s' acts Hinv Hr Hs. apply chk_C01_step_model; assumption.
  - apply inv_init.
  - constructor.
Qed.

(* ---------- C08 ---------- *)
Lemma mset_eqb_refl {A} (eqb : A -> A -> bool) l : mset_eqb eqb l l = true.
Proof. unfold mset_eqb. rewrite Nat.eqb_refl. cbn. apply forallb_forall. intros x _. apply Nat.eqb_refl. Qed.

Lemma nodupb_NoDup {A} (eqb : A -> A -> bool) (Heq : forall a b, eqb a b = true <-> a = b) l : NoDup l -> nodupb eqb l = true.
Proof.
  induction l as [|x l IH]; intros H; [reflexivity|]. inversion H as [|? ? Hx Hl]; subst. cbn [nodupb].
  rewrite (IH Hl), andb_true_r. apply Bool.negb_true_iff. apply Bool.not_true_is_false. intros E.
  apply existsb_exists in E as (y & Hy & Ey). apply Heq in Ey. subst. contradiction.
Qed.

Lemma bijective_obs cfg a : alloc_ok cfg a -> bijective (obs_of a) = true.
Proof.
  intros (_ & Hn & Hp & Hv & _). unfold bijective, obs_of. cbn [oa_chans]. rewrite !map_map. cbn [fst snd].
  change (map (fun x : chan => c_num x) (a_chans a)) with (map c_num (a_chans a)).
  change (map (fun x : chan => c_peer x) (a_chans a)) with (map c_peer (a_chans a)).
  rewrite (nodupb_NoDup N.eqb N.eqb_eq _ Hn), (nodupb_NoDup addr_eqb addr_eqb_eq _ Hp). cbn.
  apply forallb_forall. intros [n p] Hi. apply in_map_iff in Hi as (c & E & Hc). inversion E; subst. cbn. apply Hv. exact Hc.
Qed.

Lemma find_chan_num_unique l c : NoDup (map c_num l) -> In c l -> find_chan_num (c_num c) l = Some c.
Proof.
  induction l as [|x l IH]; cbn; [contradiction|]. intros Hnd Hin. inversion Hnd as [|? ? Hx Hl]; subst.
  destruct Hin as [->|Hin]; [rewrite N.eqb_refl; reflexivity|].
  destruct (N.eqb_spec (c_num x) (c_num c)) as [E|E]; [|apply IH; assumption].
  exfalso. apply Hx. rewrite E. apply in_map. exact Hin.
Qed.

Lemma find_chan_peer_unique l c : NoDup (map c_peer l) -> In c l -> find_chan_peer (c_peer c) l = Some c.
Proof.
  induction l as [|x l IH]; cbn; [contradiction|]. intros Hnd Hin. inversion Hnd as [|? ? Hx Hl]; subst.
  destruct Hin as [->|Hin]; [rewrite addr_eqb_refl; reflexivity|].
  destruct (addr_eqb (c_peer x) (c_peer c)) eqn:E; [|apply IH; assumption].
  apply addr_eqb_eq in E. exfalso. apply Hx. rewrite E. apply in_map. exact Hin.
Qed.

(* a conflicting ChannelBind by the owner: an error (400, 443 or 401), nothing changes *)
Lemma channel_bind_conflict_codes cfg s src tid uid n p a :
  owned_alloc s src uid = Some a ->
  ((exists c, find_chan_num n (a_chans a) = Some c /\ c_peer c <> p) \/
   (exists c, find_chan_peer p (a_chans a) = Some c /\ c_num c <> n)) ->
  exists code, h_channel_bind cfg s src tid uid (APresent n) (Some (PeerOk p)) = (s, [Error src MChannelBind tid code false])
               /\ (code = 400 \/ code = 443 \/ code = 401)%N.
Proof.
  intros Ho Hconf. unfold h_channel_bind. rewrite Ho.
  destruct (valid_chan n); cbn [negb]; [|eexists; split; [reflexivity|auto]].
  destruct (ip_matches_family (ip p) (a_fam a)); cbn [negb]; [|eexists; split; [reflexivity|auto]].
  destruct (cfg_policy cfg src (ip p)); cbn [negb]; [|eexists; split; [reflexivity|auto]].
  destruct Hconf as [(c & Hc & Hne)|(c & Hc & Hne)].
  - destruct (find_chan_peer p (a_chans a)) as [c1|] eqn:Hp.
    + destruct (N.eqb_spec (c_num c1) n); cbn [negb].
      * rewrite Hc. destruct (addr_eqb (c_peer c) p) eqn:E; [apply addr_eqb_eq in E; contradiction|].
        cbn [negb]. eexists; split; [reflexivity|auto].
      * eexists; split; [reflexivity|auto].
    + rewrite Hc. destruct (addr_eqb (c_peer c) p) eqn:E; [apply addr_eqb_eq in E; contradiction|].
      cbn [negb]. eexists; split; [reflexivity|auto].
  - rewrite Hc. destruct (N.eqb_spec (c_num c) n); [contradiction|]. cbn [negb]. eexists; split; [reflexivity|auto].
Qed.

Lemma authenticate_code_nonzero cfg s c code ch : authenticate cfg s c = AuthReply code ch -> (code =? 0)%N = false.
Proof.
  unfold authenticate. intros H. repeat (dmatch H; try discriminate). all: inversion H; subst; reflexivity.
Qed.

Lemma chandata_out_valid cfg s e s' acts : inv cfg s -> step cfg s e = (s', acts) ->
  forallb (fun a => match a with ChanDataOut _ n _ => valid_chan n | _ => true end) acts = true.
Proof.
  intros [_ Hall] Hs. apply forallb_forall. intros x Hx. destruct x as [| | |dst n d| |]; auto.
  assert (exists relay from dd, e = EPeer relay from dd) as (relay & from & dd & ->)
    by (eapply to_client_data_only_from_peer; [exact Hs|right; eauto]).
  cbn [step] in Hs. apply h_peer_spec in Hs as [_ [->|(a & Hf & _ & _ & [(c & Hc & ->)|(_ & pm & _ & ->)])]];
    [destruct Hx| |destruct Hx as [E|[]]; discriminate].
  destruct Hx as [E|[]]. inversion E; subst. apply find_relay_some in Hf as [Ha _]. apply find_chan_peer_some in Hc as [Hc _].
  rewrite Forall_forall in Hall. destruct (Hall _ Ha) as (_ & _ & _ & Hv & _). apply Hv. exact Hc.
Qed.

Lemma chk_C08_step_model cfg s e s' acts : inv cfg s -> step cfg s e = (s', acts) ->
  chk_C08_step (listing_of s) {| os_ev := e; os_acts := acts; os_allocs := listing_of s' |} = true.
Proof.
  intros Hinv Hs. unfold chk_C08_step. cbn [os_ev os_acts os_allocs].
  assert (Hbij : forallb bijective (listing_of s') = true).
  { pose proof (inv_step _ _ _ _ _ Hinv Hs) as [_ Hall]. rewrite listing_of_map. apply forallb_forall.
    intros o Ho. apply in_map_iff in Ho as (a & <- & Ha). rewrite Forall_forall in Hall. eapply bijective_obs; eauto. }
  rewrite Hbij, (chandata_out_valid _ _ _ _ _ Hinv Hs). cbn [andb].
  destruct e as [src tid c rq unk|src p dat|src n dat|relay from dat|dt|relay]; try reflexivity.
  destruct rq as [? ? ? ? ? ? ? ?|? ?|?|num peer|]; try reflexivity.
  destruct num as [| |n]; try reflexivity. destruct peer as [[p|]|]; try reflexivity. destruct unk; [reflexivity|].
  rewrite listing_of_map, find_oalloc_listing. destruct (find_alloc src (allocs s)) as [a|] eqn:Hf; [|reflexivity].
  cbn [option_map]. cbn [step] in Hs.
  destruct (authenticate cfg s c) as [uid|code ch] eqn:Ha.
  2:{ (* not authenticated: an error reply, nothing changes *)
    inversion Hs; subst; clear Hs. cbn [replies filter req_method lifes is_life].
    rewrite (authenticate_code_nonzero _ _ _ _ _ Ha), mset_eqb_refl. cbn.
    destruct (existsb _ _); cbn; [reflexivity|]. destruct (valid_chan n); reflexivity. }
  destruct (owned_alloc s src uid) as [a0|] eqn:Ho.
  2:{ (* not the owner: silence *)
      unfold h_channel_bind in Hs. rewrite Ho in Hs. inversion Hs; subst; clear Hs. cbn [replies filter].
      rewrite !andb_false_r. reflexivity. }
  assert (a0 = a) as -> by (unfold owned_alloc in Ho; rewrite Hf in Ho; destruct (a_user a =? uid)%N; congruence).
  pose proof (find_alloc_some _ _ _ Hf) as [Hain _].
  assert (Hok : alloc_ok cfg a) by (destruct Hinv as [_ Hall]; rewrite Forall_forall in Hall; auto).
  destruct Hok as (_ & Hnn & Hnp & _).
  destruct (existsb _ (oa_chans (obs_of a))) eqn:Hconf.
  - (* a conflicting binding exists *)
    apply existsb_exists in Hconf as ([n0 p0] & Hin0 & Hc0). unfold obs_of in Hin0. cbn [oa_chans] in Hin0.
    apply in_map_iff in Hin0 as (c0 & E0 & Hc0in). inversion E0; subst n0 p0; clear E0. cbn [fst snd] in Hc0.
    assert (Hcf : (exists c1, find_chan_num n (a_chans a) = Some c1 /\ c_peer c1 <> p) \/
                  (exists c1, find_chan_peer p (a_chans a) = Some c1 /\ c_num c1 <> n)).
    { apply orb_true_iff in Hc0 as [H1|H1]; apply andb_true_iff in H1 as [A B].
      - apply N.eqb_eq in A. apply Bool.negb_true_iff, addr_eqb_neq in B. left. exists c0. split; [|exact B].
        rewrite <- A. apply find_chan_num_unique; assumption.
      - apply Bool.negb_true_iff in A. apply N.eqb_neq in A. apply addr_eqb_eq in B. right. exists c0. split; [|exact A].
        rewrite <- B. apply find_chan_peer_unique; assumption. }
    destruct (channel_bind_conflict_codes cfg s src tid uid n p a Ho Hcf) as (code & Hh & Hcode).
    rewrite Hh in Hs. inversion Hs; subst; clear Hs. cbn [replies filter lifes is_life andb].
    rewrite mset_eqb_refl. destruct Hcode as [E|[E|E]]; rewrite E; reflexivity.
  - (* no conflict *)
    cbn [andb]. destruct (valid_chan n) eqn:Hv; cbn [negb andb]; [reflexivity|].
    unfold h_channel_bind in Hs. rewrite Ho, Hv in Hs. cbn [negb] in Hs. inversion Hs; subst; clear Hs.
    cbn [replies filter]. rewrite mset_eqb_refl. reflexivity.
Qed.

(* for every configuration and every history: channel bindings stay one-to-one and in range, ChannelData toward the
   client carries numbers in range, and a conflicting or out-of-range ChannelBind that is answered is answered by an
   error and changes nothing *)
Theorem chk_C08_model cfg ep h : chk_C08 (model_case cfg ep h) = true.
Proof.
  unfold chk_C08, model_case. cbn [rc_steps]. change (@nil obs_alloc) with (listing_of (init ep)).
  apply (all_steps_model cfg chk_C08_step (chk_C08_step_model cfg) h (init ep)). apply inv_init.
Qed.
