From Turn Require Import Bytes LtCred.
From Coq Require Import DecimalN Decimal DecimalFacts ZifyN ZifyNat ZifyBool.
Open Scope Z_scope.

Lemma bytes_uint_print d : bytes_uint (uint_bytes d) = Some d.
Proof. induction d; cbn [uint_bytes bytes_uint]; try rewrite IHd; reflexivity. Qed.

Definition is_digit (c : N) : bool := (48 <=? c)%N && (c <=? 57)%N.

Lemma uint_bytes_digits d : forallb is_digit (uint_bytes d) = true.
Proof. induction d; cbn; auto. Qed.

Lemma uint_bytes_nonempty n : uint_bytes (N.to_uint n) <> [].
Proof.
  intros H. assert (E : N.to_uint n = Nil) by (destruct (N.to_uint n); cbn in H; congruence).
  apply (f_equal N.of_uint) in E. rewrite DecimalN.Unsigned.of_to in E. cbn in E. subst n. cbn in H. discriminate.
Qed.

Lemma uint_bytes_head n : match uint_bytes (N.to_uint n) with c :: _ => is_digit c = true | [] => False end.
Proof.
  pose proof (uint_bytes_nonempty n) as Hn. pose proof (uint_bytes_digits (N.to_uint n)) as Hd.
  destruct (uint_bytes (N.to_uint n)) as [|c r]; [congruence|]. cbn in Hd. apply andb_true_iff in Hd. tauto.
Qed.

Theorem atoi_format z : - (int_max + 1) <= z <= int_max -> atoi (format_int z) = Some z.
Proof.
  intros Hz. unfold format_int. destruct (Z.ltb_spec z 0).
  - unfold atoi. cbn [N.eqb Pos.eqb]. pose proof (uint_bytes_nonempty (Z.to_N (- z))) as Hn.
    destruct (uint_bytes (N.to_uint (Z.to_N (- z)))) as [|c r] eqn:E; [congruence|].
    rewrite <- E, bytes_uint_print, DecimalN.Unsigned.of_to.
    destruct (Z.leb_spec (Z.of_N (Z.to_N (- z))) (int_max + 1)); [f_equal; lia|lia].
  - unfold atoi. pose proof (uint_bytes_head (Z.to_N z)) as Hh.
    destruct (uint_bytes (N.to_uint (Z.to_N z))) as [|c r] eqn:E; [contradiction|].
    unfold is_digit in Hh.
    destruct (N.eqb_spec c 45); [lia|]. destruct (N.eqb_spec c 43); [lia|].
    rewrite <- E, bytes_uint_print, DecimalN.Unsigned.of_to.
    destruct (Z.leb_spec (Z.of_N (Z.to_N z)) int_max); [f_equal; lia|lia].
Qed.

Theorem atoi_empty : atoi [] = None.
Proof. reflexivity. Qed.

Lemma bytes_uint_nondigit b : existsb (fun c => negb (is_digit c)) b = true -> bytes_uint b = None.
Proof.
  induction b as [|c r IH]; cbn; [discriminate|]. intros H. apply orb_true_iff in H as [H|H].
  - destruct (bytes_uint r); [|reflexivity]. unfold is_digit in H.
    repeat match goal with |- context [(c =? ?k)%N] => destruct (N.eqb_spec c k); [subst; cbn in H; discriminate|] end.
    reflexivity.
  - rewrite IH by assumption. reflexivity.
Qed.

Definition after_sign (b : bytes) : bytes :=
  match b with c :: r => if (c =? 45)%N || (c =? 43)%N then r else b | [] => b end.

(* a non-digit anywhere after an optional sign: rejected *)
Theorem atoi_nondigit b : existsb (fun c => negb (is_digit c)) (after_sign b) = true -> atoi b = None.
Proof.
  intros H. unfold atoi, after_sign in *.
  destruct b as [|c r]; [reflexivity|].
  destruct (N.eqb_spec c 45) as [->|H45]; [|destruct (N.eqb_spec c 43) as [->|H43]]; cbn [orb] in H.
  - destruct r; [reflexivity|]. rewrite bytes_uint_nondigit by assumption. reflexivity.
  - destruct r; [reflexivity|]. rewrite bytes_uint_nondigit by assumption. reflexivity.
  - rewrite bytes_uint_nondigit by assumption. reflexivity.
Qed.

(* ---------- fields ---------- *)
Lemma split_colon_nocolon acc b : forallb (fun c => negb (c =? 58)%N) b = true ->
  forall rest, split_colon acc (b ++ 58%N :: rest) = (List.rev acc ++ b) :: split_colon [] rest.
Proof.
  revert acc. induction b as [|c r IH]; intros acc H rest; cbn [List.app split_colon].
  - cbn. rewrite List.app_nil_r. reflexivity.
  - cbn in H. apply andb_true_iff in H as [Hc Hr]. destruct (c =? 58)%N; [discriminate|].
    rewrite IH by assumption. cbn [List.rev]. rewrite <- List.app_assoc. reflexivity.
Qed.

Lemma split_colon_nocolon_end acc b : forallb (fun c => negb (c =? 58)%N) b = true ->
  split_colon acc b = [List.rev acc ++ b].
Proof.
  revert acc. induction b as [|c r IH]; intros acc H; cbn [split_colon]; [rewrite List.app_nil_r; reflexivity|].
  cbn in H. apply andb_true_iff in H as [Hc Hr]. destruct (c =? 58)%N; [discriminate|].
  rewrite IH by assumption. cbn [List.rev]. rewrite <- List.app_assoc. reflexivity.
Qed.

Lemma digits_no_colon b : forallb is_digit b = true -> forallb (fun c => negb (c =? 58)%N) b = true.
Proof.
  induction b as [|c r IH]; cbn; [reflexivity|]. intros H. apply andb_true_iff in H as [Hc Hr]. rewrite IH by assumption.
  unfold is_digit in Hc. destruct (N.eqb_spec c 58); [subst; cbn in Hc; discriminate|reflexivity].
Qed.

Lemma format_no_colon z : forallb (fun c => negb (c =? 58)%N) (format_int z) = true.
Proof.
  unfold format_int. destruct (z <? 0); cbn [forallb]; [cbn [N.eqb negb andb]|]; apply digits_no_colon, uint_bytes_digits.
Qed.

Section CredP.
  Variable tag key : Type.
  Variable hmac_sha1 : bytes -> bytes -> tag.
  Variable b64 : tag -> bytes.
  Variable md5key : bytes -> bytes -> bytes -> key.
  Notation gen_plain := (gen_plain tag hmac_sha1 b64).
  Notation gen_rest := (gen_rest tag hmac_sha1 b64).
  Notation handler_plain := (handler_plain tag key hmac_sha1 b64 md5key).
  Notation handler_rest := (handler_rest tag key hmac_sha1 b64 md5key).
  Notation password_of := (password_of tag hmac_sha1 b64).

  Definition in_int_range (z : Z) : Prop := - (int_max + 1) <= z <= int_max.

  (* accepted at every instant up to the expiry second and at no instant after it; the key returned is
     the long-term key of (username, realm, password) for the very password the generator handed out *)
  Theorem plain_accept_iff now dur secret realm now' :
    in_int_range (unix (now + dur)) ->
    let '(u, pw) := gen_plain now dur secret in
    handler_plain now' secret u realm =
      if unix now' <=? unix (now + dur) then Some (u, md5key u realm pw) else None.
  Proof.
    intros Hr. unfold LtCred.gen_plain, LtCred.handler_plain. rewrite atoi_format by exact Hr.
    destruct (Z.ltb_spec (unix (now + dur)) (unix now')); destruct (Z.leb_spec (unix now') (unix (now + dur))); try lia; reflexivity.
  Qed.

  Theorem rest_accept_iff now dur secret user realm now' :
    in_int_range (unix (now + dur)) ->
    let '(u, pw) := gen_rest now dur secret user in
    handler_rest now' secret u realm =
      if unix now' <=? unix (now + dur) then Some (hd [] (fields user), md5key u realm pw) else None.
  Proof.
    intros Hr. unfold LtCred.gen_rest, LtCred.handler_rest, fields. cbn [List.app].
    rewrite split_colon_nocolon by apply format_no_colon. cbn [List.rev List.app hd].
    rewrite atoi_format by exact Hr.
    assert (Hu : match split_colon [] user with u0 :: _ => u0 | [] => format_int (unix (now + dur)) ++ 58%N :: user end
                 = hd [] (split_colon [] user)).
    { destruct user as [|c r]; cbn; [reflexivity|]. destruct (c =? 58)%N; cbn; [reflexivity|].
      destruct (split_colon [c] r) eqn:E; [|reflexivity]. exfalso. clear -E. revert E. generalize [c]. induction r; cbn; intros; [discriminate|].
      destruct (a =? 58)%N; [discriminate|eauto]. }
    destruct (Z.ltb_spec (unix (now + dur)) (unix now')); destruct (Z.leb_spec (unix now') (unix (now + dur))); try lia; try reflexivity.
    f_equal. f_equal. exact Hu.
  Qed.

  (* a username whose timestamp part is not a number never authenticates *)
  Theorem plain_non_numeric_rejected now secret username realm :
    atoi username = None -> handler_plain now secret username realm = None.
  Proof. intros H. unfold LtCred.handler_plain. rewrite H. reflexivity. Qed.
  Theorem rest_non_numeric_rejected now secret username realm :
    atoi (hd [] (fields username)) = None -> handler_rest now secret username realm = None.
  Proof. intros H. unfold LtCred.handler_rest. rewrite H. reflexivity. Qed.

  (* expired timestamps are refused whatever the rest of the username *)
  Theorem plain_expired_rejected now secret username realm t :
    atoi username = Some t -> t < unix now -> handler_plain now secret username realm = None.
  Proof. intros H Ht. unfold LtCred.handler_plain. rewrite H. destruct (Z.ltb_spec t (unix now)); [reflexivity|lia]. Qed.

  (* forgery: the key the handler computes for a username is the one derived from the HMAC of THAT username
     under ITS secret; with collision-free HMAC/base64/MD5 (the symbolic-crypto hypotheses) a password made
     for another username or from another secret gives a different key, so MESSAGE-INTEGRITY fails (C03) *)
  Hypothesis hmac_inj : forall s m s' m', hmac_sha1 s m = hmac_sha1 s' m' -> s = s' /\ m = m'.
  Hypothesis b64_inj : forall a b, b64 a = b64 b -> a = b.
  Hypothesis md5key_inj : forall u r p u' r' p', md5key u r p = md5key u' r' p' -> u = u' /\ r = r' /\ p = p'.

  Theorem forged_password_gives_other_key now secret username realm uid k secret' username' :
    handler_plain now secret username realm = Some (uid, k) ->
    (secret', username') <> (secret, username) ->
    k <> md5key username realm (password_of secret' username').
  Proof.
    unfold LtCred.handler_plain. destruct (atoi username) as [t|]; [|discriminate]. destruct (t <? unix now); [discriminate|].
    intros H Hne E. rewrite E in H. injection H as _ Hk. apply md5key_inj in Hk. destruct Hk as (_ & _ & E2). unfold LtCred.password_of in E2.
    apply b64_inj in E2. apply hmac_inj in E2. destruct E2 as [E3 E4]. apply Hne. rewrite <- E3, <- E4. reflexivity.
  Qed.
End CredP.
