From Turn Require Import Bytes.
From Coq Require Import ZifyN ZifyNat ZifyBool.
Ltac Zify.zify_post_hook ::= Z.div_mod_to_equations.
Open Scope N_scope.

Lemma be16_enc16 n : n < 65536 -> be16 (hi8 n) (lo8 n) = n.
Proof. unfold be16, hi8, lo8. lia. Qed.

Lemma hi8_lt n : hi8 n < 256.  Proof. unfold hi8. lia. Qed.
Lemma lo8_lt n : lo8 n < 256.  Proof. unfold lo8. lia. Qed.

Lemma u16_id n : n < 65536 -> u16 n = n.  Proof. unfold u16. intros. apply N.mod_small; lia. Qed.
Lemma u32_id n : n < 4294967296 -> u32 n = n.  Proof. unfold u32. intros. apply N.mod_small; lia. Qed.
Lemma u16_lt n : u16 n < 65536.  Proof. unfold u16. lia. Qed.

Lemma be32_enc32 n : n < 4294967296 ->
  be32 ((n / 16777216) mod 256) ((n / 65536) mod 256) ((n / 256) mod 256) (n mod 256) = n.
Proof. unfold be32. lia. Qed.

Lemma lenN_app {A} (a b : list A) : lenN (a ++ b) = lenN a + lenN b.
Proof. unfold lenN. rewrite app_length. lia. Qed.

Lemma lenN_cons {A} (x : A) l : lenN (x :: l) = 1 + lenN l.
Proof. unfold lenN. cbn [length]. lia. Qed.

Lemma zeros_length n : length (zeros n) = n.
Proof. induction n; cbn; congruence. Qed.

Lemma pad4_ge l : l <= pad4 l.  Proof. unfold pad4. destruct (N.ltb_spec (4 * (l / 4)) l); lia. Qed.
Lemma pad4_lt l : pad4 l < l + 4.  Proof. unfold pad4. destruct (N.ltb_spec (4 * (l / 4)) l); lia. Qed.
Lemma pad4_mod l : pad4 l mod 4 = 0.  Proof. unfold pad4. destruct (N.ltb_spec (4 * (l / 4)) l); lia. Qed.
Lemma pad4_add4 l : pad4 (4 + l) = 4 + pad4 l.
Proof. unfold pad4.
  destruct (N.ltb_spec (4 * ((4 + l) / 4)) (4 + l)); destruct (N.ltb_spec (4 * (l / 4)) l); lia. Qed.

Lemma beqb_refl a : beqb a a = true.
Proof. induction a; cbn; auto. rewrite N.eqb_refl; auto. Qed.

Lemma beqb_eq a b : beqb a b = true <-> a = b.
Proof.
  revert b; induction a as [|x a IH]; destruct b as [|y b]; cbn; split; intros H; try congruence; auto.
  - apply andb_true_iff in H as [H1 H2]. apply N.eqb_eq in H1. apply IH in H2. congruence.
  - inversion H; subst. rewrite N.eqb_refl. apply IH. reflexivity.
Qed.

Lemma firstn_app_exact {A} (a b : list A) : firstn (length a) (a ++ b) = a.
Proof. induction a; cbn; congruence. Qed.

Lemma bytes_ok_app a b : bytes_ok (a ++ b) = bytes_ok a && bytes_ok b.
Proof. unfold bytes_ok. apply forallb_app. Qed.
