From Turn Require Import Bytes Teardown.
From Coq Require Import ZifyN ZifyNat ZifyBool.
Open Scope N_scope.

(* ---------- tables ---------- *)
Lemma has_id_cons x k v m : has_id x ((k, v) :: m) = (k =? x) || has_id x m.
Proof. reflexivity. Qed.

Lemma lookup_In a m v : lookup a m = Some v -> In (a, v) m.
Proof.
  induction m as [|[k w] r IH]; cbn [lookup]; [discriminate|].
  destruct (k =? a) eqn:E.
  - intros H. inversion H; subst. apply N.eqb_eq in E. subst. left. reflexivity.
  - intros H. right. auto.
Qed.

Lemma In_del a m k v : In (k, v) (del a m) -> In (k, v) m.
Proof. unfold del. intros H. apply filter_In in H. tauto. Qed.

Lemma nth_error_upd_eq {A} (l : list A) i x t : nth_error l i = Some t -> nth_error (upd i x l) i = Some x.
Proof.
  revert i. induction l as [|y r IH]; intros [|i]; cbn; try discriminate; auto.
Qed.

Lemma nth_error_upd_neq {A} (l : list A) i j x : i <> j -> nth_error (upd i x l) j = nth_error l j.
Proof.
  revert i j. induction l as [|y r IH]; intros [|i] [|j] H; cbn; auto; try congruence.
Qed.

Lemma Forall_upd {A} (P : A -> Prop) l i x : Forall P l -> P x -> Forall P (upd i x l).
Proof.
  revert i. induction l as [|y r IH]; intros i HF Hx; [destruct i; constructor|].
  inversion HF; subst. destruct i; cbn; constructor; auto.
Qed.

Definition lkb (t : thread) : nat := match t with TRun _ _ _ _ _ l => if lk l then 1 else 0 | _ => 0 end.
Fixpoint nlk (th : list thread) : nat := match th with [] => 0 | t :: r => lkb t + nlk r end.
Definition b2n (b : bool) : nat := if b then 1%nat else 0%nat.

Lemma nlk_upd th i t t' : nth_error th i = Some t -> (nlk (upd i t' th) + lkb t = nlk th + lkb t')%nat.
Proof.
  revert i. induction th as [|y r IH]; intros [|i] H; cbn in *; try discriminate.
  - inversion H; subst. lia.
  - specialize (IH _ H). lia.
Qed.

Lemma nlk_ge th i t : nth_error th i = Some t -> (lkb t <= nlk th)%nat.
Proof.
  revert i. induction th as [|y r IH]; intros [|i] H; cbn in *; try discriminate.
  - inversion H; subst. lia.
  - specialize (IH _ H). lia.
Qed.

Section P.
  Variable ordp ordc : list step.

  Definition inv_run (pprog cprog : list step) (l : ls) : Prop :=
    scanp pprog l (fun l' => scanc ordp cprog l') = true.

  Lemma scanc_ok_now c l : scanc ordp c l = true -> ok_now l = true.
  Proof. destruct c as [|x r]; cbn [scanc]; intros H; apply andb_true_iff in H; tauto. Qed.

  Lemma scanp_ok_now p l k : scanp p l k = true -> ok_now l = true.
  Proof. destruct p as [|x r]; cbn [scanp]; intros H; apply andb_true_iff in H; tauto. Qed.

  Lemma inv_run_nil c l : scanc ordp c l = true -> inv_run [] c l.
  Proof. intros H. unfold inv_run. cbn [scanp]. rewrite (scanc_ok_now _ _ H). exact H. Qed.

  Lemma inv_run_done l : inv_run [] [] l -> lk l = false.
  Proof.
    unfold inv_run. cbn [scanp scanc]. intros H. apply andb_true_iff in H as [_ H]. apply andb_true_iff in H as [_ H].
    destruct (lk l); [discriminate|reflexivity].
  Qed.

  Lemma next_inv pprog cprog l x p' c' : inv_run pprog cprog l -> next pprog cprog = Some (x, p', c') ->
    ok_now l = true /\
    ((x <> CAddPerm /\ step_ok x l = true /\ inv_run p' c' (astep x l)) \/
     (x = CAddPerm /\ p' = [] /\ inv_run [] c' l /\ inv_run ordp c' (newperm l))).
  Proof.
    intros H N. split; [eapply scanp_ok_now; exact H|].
    unfold next in N. destruct pprog as [|y r].
    - destruct cprog as [|y r]; [discriminate|]. inversion N; subst; clear N.
      unfold inv_run in H. cbn [scanp] in H. apply andb_true_iff in H as [_ H].
      destruct x; cbn [scanc] in H; apply andb_true_iff in H as [_ H];
        try (left; apply andb_true_iff in H as [H1 H2]; split; [discriminate|split; [exact H1|apply inv_run_nil; exact H2]]).
      right. apply andb_true_iff in H as [H1 H2]. split; [reflexivity|split; [reflexivity|split; [apply inv_run_nil; exact H1|exact H2]]].
    - inversion N; subst; clear N. unfold inv_run in H. cbn [scanp] in H. apply andb_true_iff in H as [_ H].
      destruct x; try discriminate;
        (left; apply andb_true_iff in H as [H1 H2]; split; [discriminate|split; [exact H1|exact H2]]).
  Qed.

  (* ---------- the invariant ---------- *)
  Definition justifies (t : thread) (c : N) : Prop :=
    match t with TRun _ _ _ _ cp l => cp = c /\ lk l = true /\ cpub l = true | _ => False end.

  Definition tinv (s : state) (t : thread) : Prop :=
    match t with
    | TRun a pprog cprog pp cp l =>
        inv_run pprog cprog l /\ (parm l = true -> has_id pp (parmed s) = true) /\ (carm l = true -> has_id cp (carmed s) = true)
    | TCloseP todo stop =>
        (forall a p, In (a, p) todo -> has_id p (parmed s) = true) /\ (forall p, stop = Some p -> has_id p (parmed s) = true)
    | TCloseC todo stop =>
        (forall a c, In (a, c) todo -> has_id c (carmed s) = true) /\ (forall c, stop = Some c -> has_id c (carmed s) = true)
    | _ => True
    end.

  (* every published permission has a non-nil timer *)
  Definition I1 (s : state) : Prop := forall a p, In (a, p) (pmap s) -> has_id p (parmed s) = true.
  (* every published channel has a non-nil timer, or its publisher still holds the lock *)
  Definition I2 (s : state) (th : list thread) : Prop :=
    forall a c, In (a, c) (cmap s) -> has_id c (carmed s) = true \/ exists j t, nth_error th j = Some t /\ justifies t c.
  Definition grows (s s' : state) : Prop :=
    (forall x, has_id x (parmed s) = true -> has_id x (parmed s') = true) /\
    (forall x, has_id x (carmed s) = true -> has_id x (carmed s') = true).

  Definition Inv (w : world) : Prop :=
    let (s, th) := w in
    crashed s = false /\ I1 s /\ I2 s th /\ Forall (tinv s) th /\ nlk th = b2n (chlock s).

  Lemma grows_refl s : grows s s.
  Proof. split; auto. Qed.
  Lemma grows_same s s' : parmed s' = parmed s -> carmed s' = carmed s -> grows s s'.
  Proof. intros E1 E2. unfold grows. rewrite E1, E2. split; auto. Qed.

  Lemma tinv_mono s s' t : grows s s' -> tinv s t -> tinv s' t.
  Proof.
    intros [G1 G2]. destruct t; cbn; auto.
    - intros (A & B & C). split; [exact A|split; auto].
    - intros (A & B). split; eauto.
    - intros (A & B). split; eauto.
  Qed.

  Lemma no_just s th j t c : nlk th = b2n (chlock s) -> chlock s = false -> nth_error th j = Some t -> justifies t c -> False.
  Proof.
    intros Hn Hc Hj J. rewrite Hc in Hn. pose proof (nlk_ge _ _ _ Hj) as G.
    destruct t; cbn in J; try contradiction. destruct J as (_ & L & _). cbn in G. rewrite L in G. cbn in Hn. lia.
  Qed.

  Lemma no_just0 th j t c : nlk th = 0%nat -> nth_error th j = Some t -> justifies t c -> False.
  Proof.
    intros Hn Hj J. pose proof (nlk_ge _ _ _ Hj) as G.
    destruct t; cbn in J; try contradiction. destruct J as (_ & L & _). cbn in G. rewrite L in G. lia.
  Qed.

  Lemma finish_tinv s a p c pp cp l : tinv s (TRun a p c pp cp l) -> tinv s (finish a p c pp cp l).
  Proof. unfold finish. destruct p, c; cbn; auto. Qed.

  Lemma finish_lkb a p c pp cp l : inv_run p c l -> lkb (finish a p c pp cp l) = (if lk l then 1 else 0)%nat.
  Proof.
    unfold finish. destruct p, c; cbn; auto. intros H. rewrite (inv_run_done _ H). reflexivity.
  Qed.

  Lemma finish_just a p c pp cp l x : inv_run p c l -> cp = x -> lk l = true -> cpub l = true -> justifies (finish a p c pp cp l) x.
  Proof.
    unfold finish. destruct p, c; cbn; auto. intros H _ L. rewrite (inv_run_done _ H) in L. discriminate.
  Qed.

  Definition step_facts (s : state) (th : list thread) (t : thread) (s' : state) (t' : thread) : Prop :=
    crashed s' = false /\ grows s s' /\ I1 s' /\ tinv s' t' /\
    (forall a c, In (a, c) (cmap s') -> In (a, c) (cmap s) \/ has_id c (carmed s') = true \/ justifies t' c) /\
    (forall c, justifies t c -> has_id c (carmed s') = true \/ justifies t' c) /\
    (lkb t' + b2n (chlock s) = lkb t + b2n (chlock s'))%nat.

  Ltac same_state s := split; [assumption|split; [apply grows_same; reflexivity|split; [assumption|]]].

  Lemma ok_now_p l : ok_now l = true -> ppub l = true -> parm l = true.
  Proof. unfold ok_now. destruct (ppub l), (parm l); cbn; auto; discriminate. Qed.
  Lemma ok_now_c l : ok_now l = true -> lk l = false -> cpub l = true -> carm l = true.
  Proof. unfold ok_now. intros H L C. rewrite L, C in H. destruct (carm l); auto. rewrite andb_false_r in H. discriminate. Qed.

  Lemma run_step_ok s th i a pprog cprog pp cp l :
    Inv (s, th) -> nth_error th i = Some (TRun a pprog cprog pp cp l) ->
    let (s', t') := run_step ordp s a pprog cprog pp cp l in
    step_facts s th (TRun a pprog cprog pp cp l) s' t'.
  Proof.
    intros (Hcr & H1 & H2 & HF & Hn) Hi.
    assert (Ht : tinv s (TRun a pprog cprog pp cp l)) by (rewrite Forall_forall in HF; apply HF; eapply nth_error_In; eauto).
    destruct Ht as (Hrun & Hpa & Hca).
    pose proof (nlk_ge _ _ _ Hi) as Hge. cbn [lkb] in Hge.
    unfold run_step. destruct (next pprog cprog) as [[[x p'] c']|] eqn:N.
    2:{ (* nothing left *)
      unfold next in N. destruct pprog; [|discriminate]. destruct cprog; [|discriminate].
      pose proof (inv_run_done _ Hrun) as L. unfold step_facts. same_state s. split; [exact I|].
      split; [auto|]. split; [intros c J; cbn in J; destruct J as (_ & L' & _); congruence|]. cbn. rewrite L. lia. }
    destruct (next_inv _ _ _ _ _ _ Hrun N) as (Hok & [(Hx & Hso & Hrun') | (Hx & Hp' & Hrun1 & Hrun2)]).
    - (* an ordinary step *)
      assert (Hok' : ok_now (astep x l) = true) by (eapply scanp_ok_now; exact Hrun').
      destruct x; try congruence; cbn [do_step].
      + (* PPublish *)
        unfold step_facts. cbn. split; [assumption|split; [apply grows_same; reflexivity|]].
        assert (Harm : has_id pp (parmed s) = true) by (apply Hpa; apply (ok_now_p _ Hok'); reflexivity).
        split; [intros a0 p0 [E|Hin]; [inversion E; subst; exact Harm|apply In_del in Hin; eapply H1; eauto]|].
        split; [apply finish_tinv; cbn; auto|].
        split; [auto|]. split; [intros c J; right; destruct J as (E & L & C); apply finish_just; auto|].
        rewrite (finish_lkb _ _ _ _ _ _ Hrun'). cbn. lia.
      + (* PCallback *)
        unfold step_facts. cbn. split; [assumption|split; [apply grows_same; reflexivity|split; [exact H1|]]].
        split; [apply finish_tinv; cbn; auto|].
        split; [auto|]. split; [intros c J; right; destruct J as (E & L & C); apply finish_just; auto|].
        rewrite (finish_lkb _ _ _ _ _ _ Hrun'). cbn. lia.
      + (* PArm *)
        unfold step_facts. cbn. split; [assumption|].
        assert (G : grows s (set_parmed s ((pp, a) :: parmed s))).
        { unfold grows, set_parmed; cbn [parmed carmed]. split; [|auto]. intros y Hy. rewrite has_id_cons. rewrite Hy. apply orb_true_r. }
        split; [exact G|].
        split; [intros a0 p0 Hin; apply G; eapply H1; eauto|].
        split; [apply finish_tinv; cbn; split; [exact Hrun'|split; [intros _; try rewrite has_id_cons; rewrite N.eqb_refl; reflexivity|exact Hca]]|].
        split; [auto|]. split; [intros c J; right; destruct J as (E & L & C); apply finish_just; auto|].
        rewrite (finish_lkb _ _ _ _ _ _ Hrun'). cbn. lia.
      + (* CLock *)
        cbn in Hso. destruct (chlock s) eqn:Hc.
        * unfold step_facts. same_state s. split; [cbn; auto|]. split; [auto|]. split; [auto|]. cbn [lkb]; lia.
        * unfold step_facts. cbn. split; [assumption|split; [apply grows_same; reflexivity|split; [exact H1|]]].
          split; [apply finish_tinv; cbn; auto|].
          split; [auto|]. split; [intros c J; right; destruct J as (E & L & C); apply finish_just; auto|].
          rewrite (finish_lkb _ _ _ _ _ _ Hrun'). cbn. destruct (lk l); [cbn in Hso; discriminate|]. rewrite Hc. cbn. lia.
      + (* CUnlock *)
        cbn in Hso. rewrite Hso. unfold step_facts. cbn. split; [assumption|split; [apply grows_same; reflexivity|split; [exact H1|]]].
        split; [apply finish_tinv; cbn; auto|].
        split; [auto|].
        split; [intros c J; left; destruct J as (E & L & C); subst; apply Hca; apply (ok_now_c _ Hok'); cbn; auto|].
        rewrite (finish_lkb _ _ _ _ _ _ Hrun'). cbn. rewrite Hso in Hge. rewrite Hn in Hge. rewrite Hso. destruct (chlock s); cbn in *; lia.
      + (* CPublish *)
        unfold step_facts. cbn. split; [assumption|split; [apply grows_same; reflexivity|split; [exact H1|]]].
        split; [apply finish_tinv; cbn; auto|].
        split.
        { intros a0 c0 [E|Hin]; [|auto]. inversion E; subst. right.
          destruct (Bool.bool_dec (lk l) true) as [L|L].
          - right. apply finish_just; auto.
          - left. apply Hca. apply (ok_now_c _ Hok'); cbn; auto. destruct (lk l); congruence. }
        split; [intros c J; right; destruct J as (E & L & C); apply finish_just; auto|].
        rewrite (finish_lkb _ _ _ _ _ _ Hrun'). cbn. lia.
      + (* CArm *)
        unfold step_facts. cbn. split; [assumption|].
        assert (G : grows s (set_carmed s ((cp, a) :: carmed s))).
        { unfold grows, set_carmed; cbn [parmed carmed]. split; [auto|]. intros y Hy. rewrite has_id_cons. rewrite Hy. apply orb_true_r. }
        split; [exact G|]. split; [exact H1|].
        split; [apply finish_tinv; cbn; split; [exact Hrun'|split; [exact Hpa|intros _; try rewrite has_id_cons; rewrite N.eqb_refl; reflexivity]]|].
        split; [auto|]. split; [intros c J; right; destruct J as (E & L & C); apply finish_just; auto|].
        rewrite (finish_lkb _ _ _ _ _ _ Hrun'). cbn. lia.
      + (* CCallback *)
        unfold step_facts. cbn. split; [assumption|split; [apply grows_same; reflexivity|split; [exact H1|]]].
        split; [apply finish_tinv; cbn; auto|].
        split; [auto|]. split; [intros c J; right; destruct J as (E & L & C); apply finish_just; auto|].
        rewrite (finish_lkb _ _ _ _ _ _ Hrun'). cbn. lia.
    - (* the nested AddPermission *)
      subst x p'. cbn [do_step]. destruct (lookup a (pmap s)) as [p|] eqn:Lk.
      + rewrite (H1 _ _ (lookup_In _ _ _ Lk)). unfold step_facts.
        split; [exact Hcr|split; [apply grows_same; reflexivity|split; [exact H1|]]].
        split; [apply finish_tinv; cbn; auto|].
        split; [auto|]. split; [intros c J; right; destruct J as (E & L & C); apply finish_just; auto|].
        rewrite (finish_lkb _ _ _ _ _ _ Hrun1). cbn. lia.
      + unfold step_facts. cbn. split; [assumption|split; [apply grows_same; reflexivity|split; [exact H1|]]].
        split; [apply finish_tinv; cbn; split; [exact Hrun2|split; [discriminate|exact Hca]]|].
        split; [auto|]. split; [intros c J; right; destruct J as (E & L & C); apply finish_just; auto|].
        rewrite (finish_lkb _ _ _ _ _ _ Hrun2). cbn. lia.
  Qed.

  Hypothesis Hord : orders_ok ordp ordc = true.

  Lemma ordp_run : inv_run ordp [] ls0.
  Proof.
    unfold orders_ok in Hord. apply andb_true_iff in Hord as [H _]. unfold inv_run.
    revert H. generalize ls0. induction ordp as [|x r IH]; intros l0; cbn [scanp scanc].
    - intros H. apply andb_true_iff in H as [A B]. rewrite A, B. reflexivity.
    - intros H. apply andb_true_iff in H as [A B]. rewrite A. cbn.
      destruct x; try discriminate; apply andb_true_iff in B as [B1 B2]; rewrite B1; cbn; apply IH; exact B2.
  Qed.

  Lemma ordc_run : inv_run [] ordc ls0.
  Proof. unfold orders_ok in Hord. apply andb_true_iff in Hord as [_ H]. apply inv_run_nil. exact H. Qed.

  Lemma tstep_ok s th i t : Inv (s, th) -> nth_error th i = Some t ->
    let (s', t') := tstep ordp ordc s t in step_facts s th t s' t'.
  Proof.
    intros HI Hi. pose proof HI as (Hcr & H1 & H2 & HF & Hn).
    assert (Ht : tinv s t) by (rewrite Forall_forall in HF; apply HF; eapply nth_error_In; eauto).
    destruct t as [| a | a | a pprog cprog pp cp l | | | todo stop | | todo stop]; cbn [tstep].
    - unfold step_facts. same_state s. split; [exact I|]. split; [auto|]. split; [auto|]. cbn [lkb]; lia.
    - (* AddPermission: look up *)
      destruct (lookup a (pmap s)) as [p|] eqn:Lk.
      + rewrite (H1 _ _ (lookup_In _ _ _ Lk)). unfold step_facts. cbn.
        split; [assumption|split; [apply grows_same; reflexivity|split; [exact H1|]]].
        split; [exact I|]. split; [auto|]. split; [auto|]. cbn [lkb]; lia.
      + unfold step_facts. split; [exact Hcr|split; [apply grows_same; reflexivity|split; [exact H1|]]].
        split; [apply finish_tinv; cbn; split; [exact ordp_run|split; discriminate]|].
        split; [auto|]. split; [intros c []|]. rewrite (finish_lkb _ _ _ _ _ _ ordp_run). cbn. lia.
    - (* AddChannelBind: look up *)
      destruct (chlock s) eqn:Hc.
      + unfold step_facts. same_state s. split; [exact I|]. split; [auto|]. split; [auto|]. cbn [lkb]; lia.
      + destruct (lookup a (cmap s)) as [c|] eqn:Lk.
        * assert (Harm : has_id c (carmed s) = true).
          { destruct (H2 _ _ (lookup_In _ _ _ Lk)) as [A|(j & tj & Hj & J)]; [exact A|]. exfalso. eapply no_just0; [exact Hn|exact Hj|exact J]. }
          rewrite Harm. unfold step_facts. cbn. rewrite Hc.
          split; [assumption|split; [apply grows_same; reflexivity|split; [exact H1|]]].
          split; [exact I|]. split; [auto|]. split; [auto|]. cbn [lkb]; lia.
        * unfold step_facts. split; [exact Hcr|split; [apply grows_same; reflexivity|split; [exact H1|]]].
          split; [apply finish_tinv; cbn; split; [exact ordc_run|split; discriminate]|].
          split; [auto|]. split; [intros c []|]. rewrite (finish_lkb _ _ _ _ _ _ ordc_run). cbn. lia.
    - apply (run_step_ok s th i); assumption.
    - (* Close: test-and-close *)
      destruct (closed s).
      + unfold step_facts. same_state s. split; [exact I|]. split; [auto|]. split; [auto|]. cbn [lkb]; lia.
      + unfold step_facts. cbn. split; [assumption|split; [apply grows_same; reflexivity|split; [exact H1|]]].
        split; [exact I|]. split; [auto|]. split; [auto|]. cbn [lkb]; lia.
    - (* ListPermissions *)
      unfold step_facts. same_state s. split; [cbn; split; [intros a p Hin; eapply H1; eauto|discriminate]|].
      split; [auto|]. split; [auto|]. cbn [lkb]; lia.
    - (* permissions loop *)
      destruct Ht as (Ha & Hb). destruct stop as [p|].
      + destruct todo as [|[a0 p0] r0]; unfold touch_timer; rewrite (Hb p eq_refl); unfold step_facts; cbn;
        (split; [assumption|split; [apply grows_same; reflexivity|split; [exact H1|]]];
         split; [split; [exact Ha|discriminate]|]; split; [auto|]; split; [auto|]; cbn [lkb]; lia).
      + destruct todo as [|[a p] r].
        * unfold step_facts. same_state s. split; [exact I|]. split; [auto|]. split; [auto|]. cbn [lkb]; lia.
        * unfold step_facts, remove_perm. destruct (lookup a (pmap s)); cbn.
          -- split; [assumption|split; [apply grows_same; reflexivity|]].
             split; [intros a0 p0 Hin; apply In_del in Hin; eapply H1; eauto|].
             split; [split; [intros a0 p0 Hin; eapply Ha; right; eauto|intros p0 E; inversion E; subst; eapply Ha; left; reflexivity]|].
             split; [auto|]. split; [auto|]. cbn [lkb]; lia.
          -- split; [assumption|split; [apply grows_same; reflexivity|split; [exact H1|]]].
             split; [split; [intros a0 p0 Hin; eapply Ha; right; eauto|intros p0 E; inversion E; subst; eapply Ha; left; reflexivity]|].
             split; [auto|]. split; [auto|]. cbn [lkb]; lia.
    - (* ListChannelBindings *)
      destruct (chlock s) eqn:Hc.
      + unfold step_facts. same_state s. split; [exact I|]. split; [auto|]. split; [auto|]. cbn [lkb]; lia.
      + unfold step_facts. same_state s.
        split; [cbn; split; [|discriminate]|].
        { intros a c Hin. destruct (H2 _ _ Hin) as [A|(j & tj & Hj & J)]; [exact A|]. exfalso. eapply no_just0; [exact Hn|exact Hj|exact J]. }
        split; [auto|]. split; [auto|]. cbn [lkb]; lia.
    - (* channels loop *)
      destruct Ht as (Ha & Hb). destruct stop as [c|].
      + destruct todo as [|[a0 c0] r0]; unfold touch_timer; rewrite (Hb c eq_refl); unfold step_facts; cbn;
        (split; [assumption|split; [apply grows_same; reflexivity|split; [exact H1|]]];
         split; [split; [exact Ha|discriminate]|]; split; [auto|]; split; [auto|]; cbn [lkb]; lia).
      + destruct todo as [|[a c] r].
        * unfold step_facts. same_state s. split; [exact I|]. split; [auto|]. split; [auto|]. cbn [lkb]; lia.
        * destruct (chlock s) eqn:Hc.
          -- unfold step_facts. same_state s. split; [cbn; auto|]. split; [auto|]. split; [auto|]. cbn [lkb]; lia.
          -- unfold step_facts, remove_chan. destruct (lookup a (cmap s)); cbn.
             ++ split; [assumption|split; [apply grows_same; reflexivity|split; [exact H1|]]].
                split; [split; [intros a0 c0 Hin; eapply Ha; right; eauto|intros c0 E; inversion E; subst; eapply Ha; left; reflexivity]|].
                split; [intros a0 c0 Hin; left; eapply In_del; eauto|]. split; [auto|]. rewrite ?Hc. cbn [lkb]; lia.
             ++ split; [assumption|split; [apply grows_same; reflexivity|split; [exact H1|]]].
                split; [split; [intros a0 c0 Hin; eapply Ha; right; eauto|intros c0 E; inversion E; subst; eapply Ha; left; reflexivity]|].
                split; [auto|]. split; [auto|]. cbn [lkb]; lia.
  Qed.

  Lemma tinv_same s s' t : parmed s' = parmed s -> carmed s' = carmed s -> tinv s t -> tinv s' t.
  Proof. intros E1 E2. destruct t; cbn; rewrite ?E1, ?E2; auto. Qed.

  Theorem wstep_inv w o : Inv w -> Inv (wstep ordp ordc w o).
  Proof.
    destruct w as [s th]. intros HI. pose proof HI as (Hcr & H1 & H2 & HF & Hn).
    unfold wstep. rewrite Hcr. destruct o as [i | p | c].
    - destruct (nth_error th i) as [t|] eqn:Hi; [|exact HI].
      pose proof (tstep_ok s th i t HI Hi) as F. destruct (tstep ordp ordc s t) as [s' t'].
      destruct F as (A & G & B & C & D & E & L). unfold Inv. split; [exact A|split; [exact B|]].
      split; [|split].
      + intros a c Hin. destruct (D _ _ Hin) as [Old|[Arm|J]].
        * destruct (H2 _ _ Old) as [Arm|(j & tj & Hj & J)]; [left; apply G; exact Arm|].
          destruct (Nat.eq_dec i j) as [->|Ne].
          -- rewrite Hi in Hj. inversion Hj; subst. destruct (E _ J) as [Arm|J']; [left; exact Arm|].
             right. exists j, t'. split; [eapply nth_error_upd_eq; eauto|exact J'].
          -- right. exists j, tj. split; [rewrite nth_error_upd_neq; auto|exact J].
        * left. exact Arm.
        * right. exists i, t'. split; [eapply nth_error_upd_eq; eauto|exact J].
      + apply Forall_upd; [|exact C]. rewrite Forall_forall in *. intros x Hx. eapply tinv_mono; eauto.
      + pose proof (nlk_upd th i t t' Hi) as U. lia.
    - destruct (lookup p (parmed s)) as [a|]; [|exact HI]. destruct (memN p (pstopped s)); [exact HI|].
      unfold Inv, remove_perm. destruct (lookup a (pmap s)); cbn.
      + split; [assumption|]. split; [intros a0 p0 Hin; apply In_del in Hin; eapply H1; eauto|].
        split; [exact H2|]. split; [|exact Hn]. rewrite Forall_forall in *. intros x Hx. eapply tinv_same; [| |apply HF; exact Hx]; reflexivity.
      + split; [assumption|]. split; [exact H1|].
        split; [exact H2|]. split; [|exact Hn]. rewrite Forall_forall in *. intros x Hx. eapply tinv_same; [| |apply HF; exact Hx]; reflexivity.
    - destruct (lookup c (carmed s)) as [a|]; [|exact HI]. destruct (memN c (cstopped s) || chlock s); [exact HI|].
      unfold Inv, remove_chan. destruct (lookup a (cmap s)); cbn.
      + split; [assumption|]. split; [exact H1|].
        split; [intros a0 c0 Hin; apply In_del in Hin; eapply H2; eauto|]. split; [|exact Hn].
        rewrite Forall_forall in *. intros x Hx. eapply tinv_same; [| |apply HF; exact Hx]; reflexivity.
      + split; [assumption|]. split; [exact H1|]. split; [exact H2|]. split; [|exact Hn].
        rewrite Forall_forall in *. intros x Hx. eapply tinv_same; [| |apply HF; exact Hx]; reflexivity.
  Qed.

  Theorem wrun_inv sched : forall w, Inv w -> Inv (wrun ordp ordc sched w).
  Proof.
    induction sched as [|o r IH]; intros w H; [exact H|]. cbn [wrun fold_left]. apply IH. apply wstep_inv. exact H.
  Qed.

  Lemma init_inv th : forallb initial th = true -> Inv (init, th).
  Proof.
    intros H. unfold Inv. cbn. split; [reflexivity|]. split; [intros a p []|]. split; [intros a c []|].
    rewrite forallb_forall in H. split.
    - rewrite Forall_forall. intros t Ht. apply H in Ht. destruct t; cbn in *; auto; discriminate.
    - induction th as [|t r IH]; [reflexivity|]. cbn. rewrite IH; [|intros x Hx; apply H; right; exact Hx].
      assert (Ht : initial t = true) by (apply H; left; reflexivity). destruct t; cbn in *; auto; discriminate.
  Qed.

  (* for EVERY interleaving of any number of AddPermission / AddChannelBind / Close calls and timer
     expiries: nothing crashes, every published permission has its timer, and every published channel has
     its timer whenever channelBindingsLock is free *)
  Theorem teardown_safe th sched : forallb initial th = true ->
    let (s, th') := wrun ordp ordc sched (init, th) in
    crashed s = false /\
    (forall a p, In (a, p) (pmap s) -> has_id p (parmed s) = true) /\
    (chlock s = false -> forall a c, In (a, c) (cmap s) -> has_id c (carmed s) = true).
  Proof.
    intros H. pose proof (wrun_inv sched _ (init_inv th H)) as HI.
    destruct (wrun ordp ordc sched (init, th)) as [s th']. destruct HI as (A & B & C & D & E).
    split; [exact A|split; [exact B|]]. intros Hc a c Hin.
    destruct (C _ _ Hin) as [Arm|(j & tj & Hj & J)]; [exact Arm|]. exfalso. eapply no_just; eauto.
  Qed.
End P.
