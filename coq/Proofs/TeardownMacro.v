(* C15, teardown during a slow lifecycle callback, at the level of the forced schedules the harness runs (C18Check's
   macro operations): the predicate of Check/C15TdCheck.v about what remains published holds on every macro trace of
   Model/Teardown.v, for every step order accepted by orders_ok and callbacks_last. *)
From Turn Require Import C15TdCheck.
From Turn Require Import Bytes Teardown TeardownP C18Check TeardownQuiet.
From Coq Require Import Lia.
Open Scope N_scope.

Definition is_done (t : thread) : bool := match t with TDone => true | _ => false end.

Lemma set_nth_length {A} i (x : A) l : length (set_nth i x l) = length l.
Proof. revert i. induction l as [|y r IH]; intros [|i]; cbn; auto. Qed.
Lemma set_nth_eq {A} i (x : A) l : (i < length l)%nat -> nth_error (set_nth i x l) i = Some x.
Proof. revert i. induction l as [|y r IH]; intros [|i] H; cbn in *; try lia; auto. apply IH. lia. Qed.
Lemma set_nth_neq {A} i j (x : A) l : i <> j -> nth_error (set_nth i x l) j = nth_error l j.
Proof. revert i j. induction l as [|y r IH]; intros [|i] [|j] H; cbn; auto; try congruence. Qed.
Lemma set_nth_oob {A} i (x : A) l : (length l <= i)%nat -> set_nth i x l = l.
Proof. revert i. induction l as [|y r IH]; intros [|i] H; cbn in *; auto; try lia. f_equal. apply IH. lia. Qed.
Lemma upd_length {A} i (x : A) l : length (upd i x l) = length l.
Proof. revert i. induction l as [|y r IH]; intros [|i]; cbn; auto. Qed.

Lemma idx_spec (f : thread -> bool) l : forall k i,
  In i (map fst (filter (fun p : nat * thread => f (snd p)) (combine (seq k (length l)) l))) <->
  exists t, (k <= i)%nat /\ nth_error l (i - k) = Some t /\ f t = true.
Proof.
  induction l as [|t0 r IH]; intros k i; cbn [length seq combine filter map].
  - split; [intros []|]. intros (t & _ & H & _). destruct (i - k)%nat; discriminate.
  - cbn [snd]. destruct (f t0) eqn:E; cbn [map fst In]; rewrite IH.
    + split.
      * intros [<-|(t & Hk & Hn & Hf)].
        -- exists t0. rewrite Nat.sub_diag. auto.
        -- exists t. split; [lia|]. replace (i - k)%nat with (S (i - S k)) by lia. auto.
      * intros (t & Hk & Hn & Hf). destruct (Nat.eq_dec k i) as [->|Hne]; [left; reflexivity|]. right. exists t. split; [lia|].
        replace (i - k)%nat with (S (i - S k)) in Hn by lia. auto.
    + split.
      * intros (t & Hk & Hn & Hf). exists t. split; [lia|]. replace (i - k)%nat with (S (i - S k)) by lia. auto.
      * intros (t & Hk & Hn & Hf). destruct (Nat.eq_dec k i) as [->|Hne].
        -- rewrite Nat.sub_diag in Hn. cbn in Hn. inversion Hn; subst. congruence.
        -- exists t. split; [lia|]. replace (i - k)%nat with (S (i - S k)) in Hn by lia. auto.
Qed.
Lemma closer_idx_spec l i : In i (closer_idx l) <-> exists t, nth_error l i = Some t /\ is_closer t = true.
Proof.
  unfold closer_idx. rewrite (idx_spec is_closer l 0 i). rewrite Nat.sub_0_r. split; intros (t & H); exists t; [tauto|]. split; [lia|tauto].
Qed.
Lemma adder_idx_spec l i : In i (adder_idx l) <-> exists t, nth_error l i = Some t /\ is_closer t = false.
Proof.
  unfold adder_idx. rewrite (idx_spec (fun t => negb (is_closer t)) l 0 i). rewrite Nat.sub_0_r.
  split; intros (t & H); exists t; [destruct H as (_ & H1 & H2); apply Bool.negb_true_iff in H2; tauto|].
  destruct H as [H1 H2]. split; [lia|]. split; [exact H1|]. rewrite H2. reflexivity.
Qed.
Lemma nth_map_const {A B} (c : B) (l : list A) i x : nth_error (map (fun _ => c) l) i = Some x -> x = c.
Proof. intros H. apply nth_error_In in H. apply in_map_iff in H as (y & E & _). congruence. Qed.

Definition adderish (t : thread) : Prop :=
  match t with TDone | TAddPerm _ | TAddChan _ | TRun _ _ _ _ _ _ => True | _ => False end.

Section M.
  Variable ordp ordc : list step.
  Hypothesis Hord : orders_ok ordp ordc = true.
  Hypothesis Hcb : callbacks_last ordp ordc = true.

  Lemma Inv_nocrash w : Inv ordp w -> crashed (fst w) = false.
  Proof. destruct w as [s th]. intros (A & _). exact A. Qed.

  (* what one small step does to the thread table *)
  Lemma wstep_run w i t : crashed (fst w) = false -> nth_error (snd w) i = Some t ->
    wstep ordp ordc w (Run i) = (fst (tstep ordp ordc (fst w) t), upd i (snd (tstep ordp ordc (fst w) t)) (snd w)).
  Proof. destruct w as [s th]. cbn [fst snd]. intros Hc Hi. unfold wstep. rewrite Hc, Hi. destruct (tstep ordp ordc s t); reflexivity. Qed.
  Lemma wstep_fire w o : (forall i, o <> Run i) ->
    snd (wstep ordp ordc w o) = snd w /\ closed (fst (wstep ordp ordc w o)) = closed (fst w).
  Proof.
    destruct w as [s th]. intros Ho. unfold wstep. destruct (crashed s); [auto|]. destruct o as [i|p|c]; [exfalso; eapply Ho; reflexivity| |].
    - destruct (lookup p (parmed s)) as [a|]; [|auto]. destruct (memN p (pstopped s)); [auto|]. cbn. split; [reflexivity|].
      apply remove_perm_cmap.
    - destruct (lookup c (carmed s)) as [a|]; [|auto]. destruct (memN c (cstopped s) || chlock s); [auto|]. cbn. split; [reflexivity|].
      apply remove_chan_pmap.
  Qed.
  Lemma fires_keep {A} (g : A -> op) (Hg : forall x i, g x <> Run i) l : forall w,
    snd (fold_left (fun w x => wstep ordp ordc w (g x)) l w) = snd w /\
    closed (fst (fold_left (fun w x => wstep ordp ordc w (g x)) l w)) = closed (fst w).
  Proof.
    induction l as [|x r IH]; intros w; [auto|]. cbn [fold_left]. destruct (IH (wstep ordp ordc w (g x))) as [E1 E2].
    destruct (wstep_fire w (g x) (Hg x)) as [E3 E4]. rewrite E1, E2, E3, E4. auto.
  Qed.
  Lemma fire_all_p_keep w : snd (fire_all_p ordp ordc w) = snd w /\ closed (fst (fire_all_p ordp ordc w)) = closed (fst w).
  Proof. unfold fire_all_p. apply (fires_keep (fun pa : N * N => FireP (fst pa))). intros x i. discriminate. Qed.
  Lemma fire_all_c_keep w : snd (fire_all_c ordp ordc w) = snd w /\ closed (fst (fire_all_c ordp ordc w)) = closed (fst w).
  Proof. unfold fire_all_c. apply (fires_keep (fun pa : N * N => FireC (fst pa))). intros x i. discriminate. Qed.

  (* ---------- the shape of a running call, and one step of it ---------- *)
  Definition suffix (p l : list step) : Prop := exists pre, l = pre ++ p.
  Definition shape (t : thread) : Prop :=
    match t with
    | TRun _ pp cp _ _ _ => suffix pp ordp /\ suffix cp ordc /\ (pp <> [] -> cp = [] \/ exists pre, ordc = pre ++ CAddPerm :: cp)
    | _ => True
    end.

  Lemma finish_shape a p c pp cp l : shape (TRun a p c pp cp l) -> shape (finish a p c pp cp l) /\ adderish (finish a p c pp cp l).
  Proof. intros H. unfold finish. destruct p, c; cbn; auto. Qed.

  Lemma suffix_refl l : suffix l l.
  Proof. exists []. reflexivity. Qed.
  Lemma suffix_nil l : suffix [] l.
  Proof. exists l. rewrite app_nil_r. reflexivity. Qed.
  Lemma suffix_tail x r l : suffix (x :: r) l -> suffix r l.
  Proof. intros [pre ->]. exists (pre ++ [x]). rewrite <- app_assoc. reflexivity. Qed.

  Lemma next_cases pp cp x pp' cp' : next pp cp = Some (x, pp', cp') ->
    (pp = x :: pp' /\ cp' = cp) \/ (pp = [] /\ cp = x :: cp' /\ pp' = []).
  Proof.
    unfold next. destruct pp as [|y r]; [destruct cp as [|y r]; [discriminate|]|]; intros H; inversion H; subst; auto.
  Qed.

  Lemma adder_step s t s' t' : adderish t -> shape t -> tstep ordp ordc s t = (s', t') ->
    closed s' = closed s /\ adderish t' /\ shape t' /\ (at_cb t = true -> quiet t').
  Proof.
    intros Ha Hs Ht. destruct t as [|a|a|a pp cp pid cid l| | | | | ]; try contradiction; cbn [tstep] in Ht.
    - inversion Ht; subst. cbn. repeat split; auto; try discriminate.
    - destruct (lookup a (pmap s)) as [p|].
      + inversion Ht; subst. split; [destruct (has_id p (parmed s)); reflexivity|]. cbn. repeat split; auto; try discriminate.
      + inversion Ht; subst. split; [reflexivity|].
        assert (Sh : shape (TRun a ordp [] (nextid s) 0 ls0)).
        { cbn. split; [apply suffix_refl|]. split; [apply suffix_nil|]. auto. }
        destruct (finish_shape _ _ _ _ _ _ Sh) as [S1 S2]. repeat split; auto; cbn; try discriminate.
    - destruct (chlock s).
      + inversion Ht; subst. cbn. repeat split; auto; try discriminate.
      + destruct (lookup a (cmap s)) as [c|].
        * destruct (has_id c (carmed s)); inversion Ht; subst; cbn; repeat split; auto; try discriminate.
        * inversion Ht; subst. split; [reflexivity|].
          assert (Sh : shape (TRun a [] ordc 0 (nextid s) ls0)).
          { cbn. split; [apply suffix_nil|]. split; [apply suffix_refl|]. intros H. contradiction. }
          destruct (finish_shape _ _ _ _ _ _ Sh) as [S1 S2]. repeat split; auto; cbn; try discriminate.
    - unfold run_step in Ht. destruct (next pp cp) as [[[x pp'] cp']|] eqn:En.
      2:{ inversion Ht; subst. cbn. repeat split; auto; unfold at_cb; rewrite En; try discriminate. }
      destruct Hs as (Sp & Sc & Sn).
      assert (Sh' : forall pid' cid' l', shape (TRun a pp' cp' pid' cid' l')).
      { intros pid' cid' l'. destruct (next_cases _ _ _ _ _ En) as [[-> ->]|(-> & -> & ->)]; cbn.
        - split; [eapply suffix_tail; eauto|]. split; [exact Sc|]. intros _. apply Sn. discriminate.
        - split; [apply suffix_nil|]. split; [eapply suffix_tail; eauto|]. intros H. contradiction. }
      assert (Shn : x = CAddPerm -> forall pid' cid' l', shape (TRun a ordp cp' pid' cid' l')).
      { intros -> pid' cid' l'. destruct (next_cases _ _ _ _ _ En) as [[-> ->]|(-> & -> & ->)]; cbn.
        - split; [apply suffix_refl|]. split; [exact Sc|]. intros _. apply Sn. discriminate.
        - split; [apply suffix_refl|]. split; [eapply suffix_tail; eauto|]. intros _. right. destruct Sc as [pre E]. exists pre. exact E. }
      assert (Hq : is_cb x = true -> no_pub pp' = true /\ no_pub cp' = true).
      { intros Hx. unfold callbacks_last in Hcb. apply andb_true_iff in Hcb as [Hcb' Hc3]. apply andb_true_iff in Hcb' as [Hc1 Hc2].
        destruct (next_cases _ _ _ _ _ En) as [[-> ->]|(-> & -> & ->)].
        - split.
          + destruct Sp as [pre E]. destruct (from_first_suffix is_cb ordp pre x pp' E Hx) as [pre' E']. rewrite E' in Hc1.
            apply no_pub_app in Hc1. apply no_pub_tail in Hc1. tauto.
          + destruct Sn as [->|[pre E]]; [discriminate|reflexivity|].
            destruct (after_first_suffix is_cadd ordc pre CAddPerm cp E eq_refl) as [pre' E']. rewrite E' in Hc2.
            eapply no_pub_app; eauto.
        - split; [reflexivity|]. destruct Sc as [pre E]. destruct (from_first_suffix is_cb ordc pre x cp' E Hx) as [pre' E']. rewrite E' in Hc3.
          apply no_pub_app in Hc3. apply no_pub_tail in Hc3. tauto. }
      assert (Fin : forall pid' cid' l', adderish (finish a pp' cp' pid' cid' l') /\ shape (finish a pp' cp' pid' cid' l')).
      { intros. destruct (finish_shape _ _ _ _ _ _ (Sh' pid' cid' l')). auto. }
      assert (Q : forall pid' cid' l', is_cb x = true -> quiet (finish a pp' cp' pid' cid' l')).
      { intros pid' cid' l' Hx. destruct (Hq Hx). apply finish_quiet; assumption. }
      assert (Cb : at_cb (TRun a pp cp pid cid l) = is_cb x).
      { unfold at_cb. rewrite En. destruct x; reflexivity. }
      rewrite Cb. unfold do_step in Ht.
      destruct x; cbn [is_cb];
        try (inversion Ht; subst; split; [reflexivity|]; split; [apply Fin|]; split; [apply Fin|]; first [discriminate|intros _; apply Q; reflexivity]).
      + (* CLock *) destruct (chlock s); inversion Ht; subst.
        * split; [reflexivity|]. cbn. split; [exact I|]. split; [tauto|discriminate].
        * split; [reflexivity|]. split; [apply Fin|]. split; [apply Fin|discriminate].
      + (* CUnlock *) destruct (lk l); inversion Ht; subst.
        * split; [reflexivity|]. split; [apply Fin|]. split; [apply Fin|discriminate].
        * cbn. repeat split; auto; try discriminate.
      + (* CAddPerm *) destruct (lookup a (pmap s)) as [p|].
        * destruct (has_id p (parmed s)); inversion Ht; subst.
          -- split; [reflexivity|]. split; [apply Fin|]. split; [apply Fin|discriminate].
          -- cbn. repeat split; auto; try discriminate.
        * inversion Ht; subst. split; [reflexivity|].
          destruct (finish_shape _ _ _ _ _ _ (Shn eq_refl (nextid s) cid (newperm l))) as [S1 S2]. repeat split; auto; try discriminate.
  Qed.

  (* ---------- macro steps over an abstract "run thread i until it parks, blocks or returns" ---------- *)
  Section G.
    Variable mr : nat -> world -> world * status.
    Variable clist : list nat.
    Definition cl (i : nat) : bool := existsb (Nat.eqb i) clist.
    Definition PW (w : world) : Prop :=
      closed (fst w) = false /\
      forall i t, nth_error (snd w) i = Some t -> if cl i then t = TClose0 else adderish t /\ shape t.

    Hypothesis mr_pres : forall (P : world -> Prop), (forall w o, P w -> P (wstep ordp ordc w o)) ->
      forall i w, P w -> P (fst (mr i w)).
    Hypothesis mr_res : forall i w, Inv ordp w ->
      (forall j, j <> i -> nth_error (snd (fst (mr i w))) j = nth_error (snd w) j) /\
      length (snd (fst (mr i w))) = length (snd w) /\
      (snd (mr i w) = SDone -> nth_error (snd w) i <> None -> nth_error (snd (fst (mr i w))) i = Some TDone).
    Hypothesis mr_prefix : forall i w, cl i = false -> Inv ordp w -> PW w ->
      PW (fst (mr i w)) /\ (snd (mr i w) = SParked -> exists t, nth_error (snd (fst (mr i w))) i = Some t /\ quiet t).

    Definition mrun1 (ws : world * list status) (j : nat) : world * list status :=
      let (w', s) := mr j (fst ws) in (w', set_nth j s (snd ws)).
    Definition mstepG (ws : world * list status) (o : mop) : world * list status :=
      match o with
      | MRun i => mrun1 ws i
      | MRunB i js => fold_left mrun1 (i :: js) ws
      | MSleepP => (fire_all_p ordp ordc (fst ws), snd ws)
      | MSleepC => (fire_all_c ordp ordc (fire_all_p ordp ordc (fst ws)), snd ws)
      end.
    Fixpoint mtraceG (ws : world * list status) (mops : list mop) : list (mop * obs) :=
      match mops with
      | [] => []
      | o :: r => let ws' := mstepG ws o in (o, model_obs (fst (fst ws)) (fst ws') (snd ws')) :: mtraceG ws' r
      end.
    Definition wsrunG (mops : list mop) (ws : world * list status) := fold_left mstepG mops ws.

    (* anything the small steps preserve, the macro steps preserve *)
    Section Pres.
      Variable P : world -> Prop.
      Hypothesis HP : forall w o, P w -> P (wstep ordp ordc w o).
      Lemma fold_pres {A} (g : A -> op) l : forall w, P w -> P (fold_left (fun w x => wstep ordp ordc w (g x)) l w).
      Proof. induction l as [|x r IH]; intros w H; [exact H|]. cbn [fold_left]. apply IH. apply HP. exact H. Qed.
      Lemma mrun1_pres ws j : P (fst ws) -> P (fst (mrun1 ws j)).
      Proof.
        intros H. unfold mrun1. pose proof (mr_pres P HP j (fst ws) H) as H'.
        destruct (mr j (fst ws)) as [w' s]. exact H'.
      Qed.
      Lemma mruns_pres l : forall ws, P (fst ws) -> P (fst (fold_left mrun1 l ws)).
      Proof. induction l as [|j r IH]; intros ws H; [exact H|]. cbn [fold_left]. apply IH. apply mrun1_pres. exact H. Qed.
      Lemma mstepG_pres ws o : P (fst ws) -> P (fst (mstepG ws o)).
      Proof.
        intros H. destruct o as [i|i js| |]; cbn [mstepG].
        - apply mrun1_pres. exact H.
        - apply mruns_pres. exact H.
        - cbn [fst]. unfold fire_all_p. apply fold_pres. exact H.
        - cbn [fst]. unfold fire_all_c, fire_all_p. apply fold_pres. apply fold_pres. exact H.
      Qed.
      Lemma wsrunG_pres mops : forall ws, P (fst ws) -> P (fst (wsrunG mops ws)).
      Proof. induction mops as [|o r IH]; intros ws H; [exact H|]. cbn. apply IH. apply mstepG_pres. exact H. Qed.
    End Pres.

    (* the statuses tell the truth about finished calls *)
    Definition DInv (ws : world * list status) : Prop :=
      Inv ordp (fst ws) /\ length (snd ws) = length (snd (fst ws)) /\
      forall i, nth_error (snd ws) i = Some SDone -> nth_error (snd (fst ws)) i = Some TDone.

    Lemma mrun1_dinv ws j : DInv ws -> DInv (mrun1 ws j).
    Proof.
      intros (HI & Hlen & Hd). pose proof (mr_res j (fst ws) HI) as (A & B & C).
      pose proof (mr_pres _ (wstep_inv ordp ordc Hord) j (fst ws) HI) as HI'.
      unfold mrun1. remember (mr j (fst ws)) as r eqn:E. destruct r as [w' s]. unfold DInv. cbn [fst snd] in *.
      split; [exact HI'|]. split; [rewrite set_nth_length; congruence|].
      intros i Hi. destruct (Nat.eq_dec j i) as [->|Hne].
      - destruct (Nat.lt_ge_cases i (length (snd ws))) as [Hlt|Hge].
        + rewrite set_nth_eq in Hi by exact Hlt. inversion Hi; subst s. apply C; [reflexivity|].
          intros E'. apply nth_error_None in E'. lia.
        + rewrite set_nth_oob in Hi by exact Hge. apply nth_error_None in Hge. congruence.
      - rewrite set_nth_neq in Hi by exact Hne. rewrite A by congruence. apply Hd. exact Hi.
    Qed.
    Lemma mruns_dinv l : forall ws, DInv ws -> DInv (fold_left mrun1 l ws).
    Proof. induction l as [|j r IH]; intros ws H; [exact H|]. cbn [fold_left]. apply IH. apply mrun1_dinv. exact H. Qed.
    Lemma fires_dinv ws w' : DInv ws -> Inv ordp w' -> snd w' = snd (fst ws) -> DInv (w', snd ws).
    Proof. intros (HI & Hlen & Hd) HI' E. split; [exact HI'|]. cbn [fst snd]. rewrite E. auto. Qed.
    Lemma mstepG_dinv ws o : DInv ws -> DInv (mstepG ws o).
    Proof.
      intros H. destruct o as [i|i js| |]; cbn [mstepG].
      - apply mrun1_dinv. exact H.
      - apply mruns_dinv. exact H.
      - apply fires_dinv; [exact H| |apply fire_all_p_keep].
        unfold fire_all_p. apply fold_pres; [apply (wstep_inv ordp ordc Hord)|apply H].
      - apply fires_dinv; [exact H| |].
        + unfold fire_all_c, fire_all_p. apply fold_pres; [apply (wstep_inv ordp ordc Hord)|].
          apply fold_pres; [apply (wstep_inv ordp ordc Hord)|apply H].
        + destruct (fire_all_c_keep (fire_all_p ordp ordc (fst ws))) as [E _]. rewrite E. apply fire_all_p_keep.
    Qed.
    Lemma wsrunG_dinv mops : forall ws, DInv ws -> DInv (wsrunG mops ws).
    Proof. induction mops as [|o r IH]; intros ws H; [exact H|]. cbn. apply IH. apply mstepG_dinv. exact H. Qed.

    (* before any Close call has run: the allocation is open, the closers have not started, the adders are where their
       status says *)
    Definition PInv (ws : world * list status) : Prop :=
      PW (fst ws) /\
      forall i, cl i = false -> nth_error (snd ws) i = Some SParked -> exists t, nth_error (snd (fst ws)) i = Some t /\ quiet t.

    Lemma mrun1_pinv ws j : cl j = false -> DInv ws -> PInv ws -> PInv (mrun1 ws j).
    Proof.
      intros Hj (HI & Hlen & Hd) (HW & Hp). pose proof (mr_res j (fst ws) HI) as (A & B & C).
      pose proof (mr_prefix j (fst ws) Hj HI HW) as (HW' & Hq).
      unfold mrun1. remember (mr j (fst ws)) as r eqn:E. destruct r as [w' s]. unfold PInv. cbn [fst snd] in *.
      split; [exact HW'|]. intros i Hi Hs. destruct (Nat.eq_dec j i) as [->|Hne].
      - destruct (Nat.lt_ge_cases i (length (snd ws))) as [Hlt|Hge].
        + rewrite set_nth_eq in Hs by exact Hlt. inversion Hs; subst s. apply Hq. reflexivity.
        + rewrite set_nth_oob in Hs by exact Hge. apply nth_error_None in Hge. congruence.
      - rewrite set_nth_neq in Hs by exact Hne. rewrite A by congruence. apply Hp; assumption.
    Qed.
    Lemma mruns_pinv l : forall ws, forallb (fun j => negb (cl j)) l = true -> DInv ws -> PInv ws -> PInv (fold_left mrun1 l ws).
    Proof.
      induction l as [|j r IH]; intros ws Hl HD HP; [exact HP|]. cbn [fold_left forallb] in *. apply andb_true_iff in Hl as [Hj Hr].
      apply Bool.negb_true_iff in Hj. apply IH; [exact Hr|apply mrun1_dinv; exact HD|apply mrun1_pinv; assumption].
    Qed.
    Lemma fires_pinv ws w' : PInv ws -> snd w' = snd (fst ws) -> closed (fst w') = closed (fst (fst ws)) -> PInv (w', snd ws).
    Proof. intros ((Hc & Ht) & Hp) E1 E2. split; [split|]; cbn [fst snd]; rewrite ?E1, ?E2; auto. Qed.
    Definition runs_cl (o : mop) : bool := existsb cl (runs o).
    Lemma mstepG_pinv ws o : runs_cl o = false -> DInv ws -> PInv ws -> PInv (mstepG ws o).
    Proof.
      intros Ho HD HP. destruct o as [i|i js| |]; cbn [mstepG].
      - apply mrun1_pinv; auto. unfold runs_cl in Ho. cbn in Ho. rewrite Bool.orb_false_r in Ho. exact Ho.
      - apply mruns_pinv; auto. unfold runs_cl in Ho. cbn [runs] in Ho. revert Ho. generalize (i :: js). intros l.
        induction l as [|x l IH]; cbn; [reflexivity|]. intros H. apply Bool.orb_false_iff in H as [H1 H2]. rewrite H1. cbn. apply IH. exact H2.
      - apply fires_pinv; [exact HP|apply fire_all_p_keep|apply fire_all_p_keep].
      - destruct (fire_all_c_keep (fire_all_p ordp ordc (fst ws))) as [E1 E2]. destruct (fire_all_p_keep (fst ws)) as [E3 E4].
        apply fires_pinv; [exact HP|congruence|congruence].
    Qed.
    Lemma wsrunG_pinv mops : forall ws, forallb (fun o => negb (runs_cl o)) mops = true -> DInv ws -> PInv ws -> PInv (wsrunG mops ws).
    Proof.
      induction mops as [|o r IH]; intros ws Hl HD HP; [exact HP|]. cbn [forallb] in Hl. apply andb_true_iff in Hl as [Ho Hr].
      apply Bool.negb_true_iff in Ho. cbn. apply IH; [exact Hr|apply mstepG_dinv; exact HD|apply mstepG_pinv; assumption].
    Qed.

    (* the macro trace up to and from the first operation that runs a closer *)
    Lemma find_split : forall mops ws,
      match find (fun x : list status * mop * obs => runs_cl (snd (fst x))) (with_before (snd ws) (mtraceG ws mops)) with
      | Some (before, o, _) => exists pre post, mops = pre ++ o :: post /\ forallb (fun o' => negb (runs_cl o')) pre = true /\
                                 before = snd (wsrunG pre ws)
      | None => True
      end.
    Proof.
      induction mops as [|o r IH]; intros ws; [exact I|]. cbn [mtraceG with_before find fst snd].
      destruct (runs_cl o) eqn:E.
      - exists [], r. auto.
      - specialize (IH (mstepG ws o)). cbn [o_status model_obs].
        destruct (find _ (with_before (snd (mstepG ws o)) (mtraceG (mstepG ws o) r))) as [[[before o'] ob']|]; [|exact I].
        destruct IH as (pre & post & -> & Hpre & ->). exists (o :: pre), post. cbn [forallb]. rewrite E. auto.
    Qed.

    Lemma mtraceG_snoc : forall mops ws o, mtraceG ws (mops ++ [o]) =
      mtraceG ws mops ++ [(o, model_obs (fst (fst (wsrunG mops ws))) (fst (mstepG (wsrunG mops ws) o)) (snd (mstepG (wsrunG mops ws) o)))].
    Proof. induction mops as [|x r IH]; intros ws o; [reflexivity|]. cbn [app mtraceG]. rewrite IH. reflexivity. Qed.

    Lemma mtraceG_last mops ws : mops <> [] -> exists o b rest,
      rev (mtraceG ws mops) = (o, model_obs b (fst (wsrunG mops ws)) (snd (wsrunG mops ws))) :: rest.
    Proof.
      intros H. destruct (exists_last H) as (m' & o & ->). rewrite mtraceG_snoc, rev_unit.
      unfold wsrunG. rewrite fold_left_app. cbn [fold_left]. eauto.
    Qed.

    Lemma cl_In i : cl i = true <-> In i clist.
    Proof.
      unfold cl. rewrite existsb_exists. split.
      - intros (x & Hx & E). apply Nat.eqb_eq in E. subst. exact Hx.
      - intros H. exists i. split; [exact H|apply Nat.eqb_refl].
    Qed.

    Lemma wstep_length w o : length (snd (wstep ordp ordc w o)) = length (snd w).
    Proof.
      destruct o as [i|p|c].
      2:{ destruct (wstep_fire w (FireP p)) as [E _]; [intros i; discriminate|]. rewrite E. reflexivity. }
      2:{ destruct (wstep_fire w (FireC c)) as [E _]; [intros i; discriminate|]. rewrite E. reflexivity. }
      destruct w as [s th]. unfold wstep. destruct (crashed s); [reflexivity|]. destruct (nth_error th i) as [t|]; [|reflexivity].
      destruct (tstep ordp ordc s t). cbn. apply upd_length.
    Qed.

    Lemma dinv0 threads : forallb initial threads = true -> DInv ((init, threads), map (fun _ => SNew) threads).
    Proof.
      intros H. split; [apply init_inv; exact H|]. cbn [fst snd]. split; [apply map_length|].
      intros i Hi. apply nth_map_const in Hi. discriminate.
    Qed.
    Lemma pinv0 threads : forallb initial threads = true -> clist = closer_idx threads ->
      PInv ((init, threads), map (fun _ => SNew) threads).
    Proof.
      intros H Hcl. rewrite forallb_forall in H. split; [split; [reflexivity|]|]; cbn [fst snd].
      - intros i t Hi. pose proof (H t (nth_error_In _ _ Hi)) as Hini. destruct (cl i) eqn:E.
        + apply cl_In in E. rewrite Hcl in E. apply closer_idx_spec in E as (t' & Ht' & Hc). rewrite Hi in Ht'. inversion Ht'; subst t'.
          destruct t; cbn in *; try discriminate. reflexivity.
        + assert (Hc : is_closer t = false).
          { destruct (is_closer t) eqn:Ec; [|reflexivity]. assert (In i clist) by (rewrite Hcl; apply closer_idx_spec; eauto).
            apply cl_In in H0. congruence. }
          destruct t; cbn in *; try discriminate; auto.
      - intros i _ Hi. apply nth_map_const in Hi. discriminate.
    Qed.

    Lemma quiet_at_split threads ws : clist = closer_idx threads -> DInv ws -> PInv ws -> length (snd (fst ws)) = length threads ->
      forallb (fun i => settled (nth i (snd ws) SNew)) (adder_idx threads) = true -> Forall quiet (snd (fst ws)).
    Proof.
      intros Hcl (HI & Hlen & Hd) ((Hc & Ht) & Hp) Hl Hset. apply Forall_forall. intros t Hin.
      apply In_nth_error in Hin as [i Hi]. specialize (Ht i t Hi). destruct (cl i) eqn:E; [subst t; exact I|].
      assert (Hlt : (i < length threads)%nat) by (rewrite <- Hl; apply nth_error_Some; congruence).
      destruct (nth_error threads i) as [t0|] eqn:E0; [|apply nth_error_None in E0; lia].
      assert (Hc0 : is_closer t0 = false).
      { destruct (is_closer t0) eqn:Ec; [|reflexivity]. assert (In i clist) by (rewrite Hcl; apply closer_idx_spec; eauto).
        apply cl_In in H. congruence. }
      assert (Hadd : In i (adder_idx threads)) by (apply adder_idx_spec; eauto).
      rewrite forallb_forall in Hset. specialize (Hset i Hadd).
      assert (Hs : nth_error (snd ws) i = Some (nth i (snd ws) SNew)) by (apply nth_error_nth'; lia).
      destruct (nth i (snd ws) SNew); try discriminate.
      - rewrite (Hd i Hs) in Hi. inversion Hi. exact I.
      - destruct (Hp i E Hs) as (t' & Ht' & Hq). rewrite Hi in Ht'. inversion Ht'; subst. exact Hq.
    Qed.

    Lemma final_maps ws : DInv ws -> QInv (fst ws) -> all_done (snd ws) = true -> closed (fst (fst ws)) = true ->
      pmap (fst (fst ws)) = [] /\ cmap (fst (fst ws)) = [] /\ chlock (fst (fst ws)) = false.
    Proof.
      intros (HI & Hlen & Hd) [Qt Qc] Had Hc.
      assert (Hall : Forall (fun t => t = TDone) (snd (fst ws))).
      { apply Forall_forall. intros t Ht. apply In_nth_error in Ht as [i Hi].
        assert (Hlt : (i < length (snd ws))%nat) by (rewrite Hlen; apply nth_error_Some; congruence).
        destruct (nth_error (snd ws) i) as [s|] eqn:Es; [|apply nth_error_None in Es; lia].
        unfold all_done in Had. rewrite forallb_forall in Had. specialize (Had s (nth_error_In _ _ Es)).
        destruct s; try discriminate. rewrite (Hd i Es) in Hi. inversion Hi. reflexivity. }
      destruct (Qc Hc) as [H|[H1 H2]].
      - exfalso. apply existsb_nth in H as (j & t & Hj & Ht). rewrite Forall_forall in Hall.
        rewrite (Hall t (nth_error_In _ _ Hj)) in Ht. discriminate.
      - split; [exact H1|split; [exact H2|]].
        destruct (fst ws) as [s th]. destruct HI as (_ & _ & _ & _ & Hn). cbn [fst snd] in *.
        assert (Hz : nlk th = 0%nat). { clear -Hall. induction Hall as [|t r Ht _ IH]; [reflexivity|]. subst t. cbn. exact IH. }
        destruct (chlock s); [cbn in Hn; lia|reflexivity].
    Qed.

    Theorem maps_holds_G threads mops : forallb initial threads = true -> clist = closer_idx threads ->
      maps_holds threads (mtraceG ((init, threads), map (fun _ => SNew) threads) mops) = true.
    Proof.
      intros Hinit Hcl. set (ws0 := ((init, threads), map (fun _ : thread => SNew) threads)).
      unfold maps_holds. destruct (premise threads (mtraceG ws0 mops)) eqn:Hprem; [|reflexivity].
      unfold premise in Hprem. cbv zeta in Hprem.
      pose proof (find_split mops ws0) as Hs. unfold runs_cl, cl in Hs. rewrite Hcl in Hs. cbn [snd ws0] in Hs.
      revert Hs. match type of Hprem with context [find ?g ?l] => destruct (find g l) as [[[before o] ob]|] end; [|discriminate].
      intros (pre & post & Hm & Hpre & Hb).
      pose proof (dinv0 threads Hinit) as D0. pose proof (pinv0 threads Hinit Hcl) as P0. fold ws0 in D0, P0.
      assert (Hpre' : forallb (fun o' => negb (runs_cl o')) pre = true).
      { unfold runs_cl, cl. rewrite Hcl. exact Hpre. }
      pose proof (wsrunG_dinv pre ws0 D0) as D1. pose proof (wsrunG_pinv pre ws0 Hpre' D0 P0) as P1.
      assert (L1 : length (snd (fst (wsrunG pre ws0))) = length threads).
      { apply (wsrunG_pres (fun w => length (snd w) = length threads)); [|reflexivity]. intros w o' H. rewrite wstep_length. exact H. }
      subst before. pose proof (quiet_at_split threads _ Hcl D1 P1 L1 Hprem) as Hq.
      assert (Q1 : QInv (fst (wsrunG pre ws0))).
      { destruct P1 as ((Hc & _) & _). destruct (fst (wsrunG pre ws0)) as [s1 th1]. apply qinv_start; assumption. }
      assert (Qf : QInv (fst (wsrunG mops ws0))).
      { rewrite Hm. unfold wsrunG. rewrite fold_left_app. apply (wsrunG_pres _ (wstep_qinv ordp ordc)). exact Q1. }
      pose proof (wsrunG_dinv mops ws0 D0) as Df.
      assert (Hne : mops <> []) by (rewrite Hm; destruct pre; discriminate).
      destruct (mtraceG_last mops ws0 Hne) as (o' & b & rest & Hrev). unfold maps_left. rewrite Hrev.
      cbn [o_status o_closed model_obs].
      destruct (all_done (snd (wsrunG mops ws0)) && closed (fst (fst (wsrunG mops ws0)))) eqn:E; [|reflexivity].
      apply andb_true_iff in E as [E1 E2]. destruct (final_maps _ Df Qf E1 E2) as (M1 & M2 & M3).
      cbn [o_perms o_chans model_obs]. rewrite M1, M2, M3. reflexivity.
    Qed.
  End G.

  (* ---------- the concrete "run thread i" of C18Check ---------- *)
  Lemma mrun_S f i w : mrun ordp ordc (S f) i w =
    if crashed (fst w) then (w, SDone) else
    match nth_error (snd w) i with
    | None => (w, SDone)
    | Some t => if is_done t then (w, SDone) else
                if blockedb (fst w) t then (w, SBlocked) else
                if at_cb t then (wstep ordp ordc w (Run i), SParked) else mrun ordp ordc f i (wstep ordp ordc w (Run i))
    end.
  Proof.
    cbn [mrun]. destruct (crashed (fst w)); [reflexivity|]. destruct (nth_error (snd w) i) as [t|]; [|reflexivity].
    destruct t; reflexivity.
  Qed.
  Lemma mrun_0 i w : mrun ordp ordc 0 i w = (w, SBlocked).
  Proof. reflexivity. Qed.
  Opaque mrun.

  Lemma mrun_pres f : forall (P : world -> Prop), (forall w o, P w -> P (wstep ordp ordc w o)) ->
    forall i w, P w -> P (fst (mrun ordp ordc f i w)).
  Proof.
    intros P HP. induction f as [|f IH]; intros i w H; [rewrite mrun_0; exact H|]. rewrite mrun_S.
    destruct (crashed (fst w)); [exact H|]. destruct (nth_error (snd w) i) as [t|]; [|exact H].
    destruct (is_done t); [exact H|]. destruct (blockedb (fst w) t); [exact H|].
    destruct (at_cb t); [apply HP; exact H|]. apply IH. apply HP. exact H.
  Qed.

  Lemma mrun_res f : forall i w, Inv ordp w ->
    (forall j, j <> i -> nth_error (snd (fst (mrun ordp ordc f i w))) j = nth_error (snd w) j) /\
    length (snd (fst (mrun ordp ordc f i w))) = length (snd w) /\
    (snd (mrun ordp ordc f i w) = SDone -> nth_error (snd w) i <> None ->
     nth_error (snd (fst (mrun ordp ordc f i w))) i = Some TDone).
  Proof.
    induction f as [|f IH]; intros i w HI.
    - rewrite mrun_0. cbn. repeat split; auto. discriminate.
    - rewrite mrun_S. rewrite (Inv_nocrash w HI). destruct (nth_error (snd w) i) as [t|] eqn:Hi.
      2:{ cbn. repeat split; auto. intros _ H. congruence. }
      destruct (is_done t) eqn:Hd. { destruct t; try discriminate. cbn. repeat split; auto. }
      destruct (blockedb (fst w) t). { cbn. repeat split; auto. discriminate. }
      pose proof (wstep_run w i t (Inv_nocrash w HI) Hi) as Hw.
      assert (Hoth : forall j, j <> i -> nth_error (snd (wstep ordp ordc w (Run i))) j = nth_error (snd w) j).
      { intros j Hj. rewrite Hw. cbn [snd]. apply nth_error_upd_neq. congruence. }
      assert (Hlen : length (snd (wstep ordp ordc w (Run i))) = length (snd w)).
      { rewrite Hw. cbn [snd]. apply upd_length. }
      assert (Hsome : nth_error (snd (wstep ordp ordc w (Run i))) i <> None).
      { rewrite Hw. cbn [snd]. erewrite nth_error_upd_eq by exact Hi. discriminate. }
      destruct (at_cb t). { cbn [fst snd]. repeat split; auto. discriminate. }
      destruct (IH i _ (wstep_inv ordp ordc Hord w (Run i) HI)) as (A & B & C).
      split; [intros j Hj; rewrite A by exact Hj; apply Hoth; exact Hj|]. split; [rewrite B; exact Hlen|].
      intros Hs _. apply C; assumption.
  Qed.

  Lemma mrun_prefix clist f : forall i w, cl clist i = false -> Inv ordp w -> PW clist w ->
    PW clist (fst (mrun ordp ordc f i w)) /\
    (snd (mrun ordp ordc f i w) = SParked -> exists t, nth_error (snd (fst (mrun ordp ordc f i w))) i = Some t /\ quiet t).
  Proof.
    induction f as [|f IH]; intros i w Hi HI HW.
    - rewrite mrun_0. cbn [fst snd]. split; [exact HW|discriminate].
    - rewrite mrun_S. rewrite (Inv_nocrash w HI). destruct (nth_error (snd w) i) as [t|] eqn:Ei.
      2:{ cbn [fst snd]. split; [exact HW|discriminate]. }
      destruct (is_done t). { cbn [fst snd]. split; [exact HW|discriminate]. }
      destruct (blockedb (fst w) t). { cbn [fst snd]. split; [exact HW|discriminate]. }
      pose proof (wstep_run w i t (Inv_nocrash w HI) Ei) as Hw.
      destruct (tstep ordp ordc (fst w) t) as [s' t'] eqn:Est. cbn [fst snd] in Hw.
      destruct HW as [Hc Ht]. pose proof (Ht i t Ei) as Hti. rewrite Hi in Hti. destruct Hti as [Ha Hs].
      destruct (adder_step (fst w) t s' t' Ha Hs Est) as (C1 & C2 & C3 & C4).
      assert (HW' : PW clist (wstep ordp ordc w (Run i))).
      { rewrite Hw. split; cbn [fst snd]; [congruence|]. intros k t1 Hk. destruct (Nat.eq_dec i k) as [<-|Hne].
        - erewrite nth_error_upd_eq in Hk by exact Ei. inversion Hk; subst t1. rewrite Hi. auto.
        - rewrite nth_error_upd_neq in Hk by exact Hne. apply Ht. exact Hk. }
      destruct (at_cb t).
      + cbn [fst snd]. split; [exact HW'|]. intros _. exists t'. split; [|apply C4; reflexivity].
        rewrite Hw. cbn [snd]. eapply nth_error_upd_eq. exact Ei.
      + apply IH; [exact Hi|apply (wstep_inv ordp ordc Hord); exact HI|exact HW'].
  Qed.

  Lemma mstep_eq ws o : mstep ordp ordc ws o = mstepG (mrun ordp ordc 200) ws o.
  Proof.
    unfold mstep, mstepG, mrun1. generalize (mrun ordp ordc 200). intros mr. destruct ws as [w st]. destruct o; reflexivity.
  Qed.

  (* the macro trace of the model: what C18Check.agree_from compares the implementation's observations with *)
  Fixpoint mtrace (ws : world * list status) (mops : list mop) : list (mop * obs) :=
    match mops with
    | [] => []
    | o :: r => (o, model_obs (fst (fst ws)) (fst (mstep ordp ordc ws o)) (snd (mstep ordp ordc ws o))) :: mtrace (mstep ordp ordc ws o) r
    end.
  Lemma mtrace_eq : forall mops ws, mtrace ws mops = mtraceG (mrun ordp ordc 200) ws mops.
  Proof. induction mops as [|o r IH]; intros ws; [reflexivity|]. cbn [mtrace mtraceG]. rewrite !mstep_eq, IH. reflexivity. Qed.

  Theorem maps_holds_model threads mops : forallb initial threads = true ->
    maps_holds threads (mtrace ((init, threads), map (fun _ => SNew) threads) mops) = true.
  Proof.
    intros H. rewrite mtrace_eq.
    apply (maps_holds_G (mrun ordp ordc 200) (closer_idx threads) (mrun_pres 200) (mrun_res 200) (mrun_prefix (closer_idx threads) 200)); [exact H|reflexivity].
  Qed.

  (* and it is a trace the correspondence runner accepts *)
  Lemma list_eqb_refl {A} (e : A -> A -> bool) (He : forall x, e x x = true) l : list_eqb e l l = true.
  Proof. induction l as [|x r IH]; [reflexivity|]. cbn. rewrite He, IH. reflexivity. Qed.
  Lemma obs_eqb_refl ob : obs_eqb ob ob = true.
  Proof.
    unfold obs_eqb. assert (Hp : forall x : N * bool, pb_eqb x x = true).
    { intros [a b]. unfold pb_eqb. cbn. rewrite N.eqb_refl. destruct b; reflexivity. }
    rewrite (list_eqb_refl _ Hp). destruct (o_chans ob) as [l|]; [rewrite (list_eqb_refl _ Hp)|].
    all: rewrite Bool.eqb_reflx, (list_eqb_refl _ (fun x => N.eqb_refl (ev_key x))).
    all: rewrite (list_eqb_refl status_eqb); [reflexivity|intros []; reflexivity].
  Qed.
  Lemma agree_mtrace : forall mops ws, Inv ordp (fst ws) -> agree_from ordp ordc ws (mtrace ws mops) = true.
  Proof.
    induction mops as [|o r IH]; intros ws HI; [reflexivity|]. cbn [mtrace agree_from].
    assert (HI' : Inv ordp (fst (mstep ordp ordc ws o))).
    { rewrite mstep_eq. apply (mstepG_pres _ (mrun_pres 200) _ (wstep_inv ordp ordc Hord)). exact HI. }
    rewrite (Inv_nocrash _ HI'), obs_eqb_refl, (IH _ HI'). reflexivity.
  Qed.
End M.

