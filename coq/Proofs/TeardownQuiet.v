(* C15, teardown during a slow lifecycle callback, on Model/Teardown.v: if, when the allocation starts to close, every
   AddPermission / AddChannelBind call has already done all its publishing (it is inside a callback or further, or has
   returned) then - for EVERY interleaving of the remaining steps, of any number of Close calls and of timer expiries -
   once every call has returned and the allocation is closed, no published permission and no published channel remains. *)
From Turn Require Import Bytes Teardown.
From Coq Require Import Lia.
Open Scope N_scope.


(* a thread that will not publish anything any more, and a closer that has not started *)
Definition quiet (t : thread) : Prop :=
  match t with
  | TDone | TClose0 => True
  | TRun _ pprog cprog _ _ _ => no_pub pprog = true /\ no_pub cprog = true
  | _ => False
  end.

Definition keys (m : list (N * N)) : list N := map fst m.

(* the state of a thread that is in the middle of Close, against the tables *)
Definition closing_ok (s : state) (t : thread) : Prop :=
  match t with
  | TClosePS => True
  | TCloseP todo _ => forall a p, In (a, p) (pmap s) -> In a (keys todo)
  | TCloseCS => pmap s = []
  | TCloseC todo _ => pmap s = [] /\ forall a c, In (a, c) (cmap s) -> In a (keys todo)
  | _ => True
  end.
Definition is_closing (t : thread) : bool :=
  match t with TClosePS | TCloseP _ _ | TCloseCS | TCloseC _ _ => true | _ => false end.

Definition thread_ok (s : state) (t : thread) : Prop := (is_closing t = false -> quiet t) /\ closing_ok s t.

Record QInv (w : world) : Prop := {
  q_threads : Forall (thread_ok (fst w)) (snd w);
  (* once the allocation is closed, either a Close call is still at work or nothing is left *)
  q_closed : closed (fst w) = true -> existsb is_closing (snd w) = true \/ (pmap (fst w) = [] /\ cmap (fst w) = []) }.

Lemma in_del a m k v : In (k, v) (del a m) -> In (k, v) m /\ k <> a.
Proof. unfold del. intros H. apply filter_In in H as [H E]. cbn in E. split; [exact H|]. intros ->. rewrite N.eqb_refl in E. discriminate. Qed.

(* the tables only shrink under what quiet threads and timers do *)
Definition shrinks (s s' : state) : Prop :=
  (forall a p, In (a, p) (pmap s') -> In (a, p) (pmap s)) /\ (forall a c, In (a, c) (cmap s') -> In (a, c) (cmap s)).

Lemma shrinks_refl s : shrinks s s.
Proof. split; auto. Qed.

Lemma remove_perm_shrinks a s : shrinks s (remove_perm a s).
Proof. unfold remove_perm. destruct (lookup a (pmap s)); [|apply shrinks_refl]. split; cbn; auto.
  intros k v H. apply in_del in H. tauto. Qed.
Lemma remove_chan_shrinks a s : shrinks s (remove_chan a s).
Proof. unfold remove_chan. destruct (lookup a (cmap s)); [|apply shrinks_refl]. split; cbn; auto.
  intros k v H. apply in_del in H. tauto. Qed.

Lemma nil_of_sub (m m' : list (N * N)) : (forall a p, In (a, p) m' -> In (a, p) m) -> m = [] -> m' = [].
Proof. intros H ->. destruct m' as [|[a p] r]; [reflexivity|]. exfalso. apply (H a p). left. reflexivity. Qed.

Lemma closing_ok_shrinks s s' t : shrinks s s' -> closing_ok s t -> closing_ok s' t.
Proof.
  intros (Hp & Hc) H. destruct t as [| | | | | |todo stop| |todo stop]; cbn in *; auto.
  - intros a p Hin. apply (H a p). auto.
  - eapply nil_of_sub; eauto.
  - destruct H as [H1 H2]. split; [eapply nil_of_sub; eauto|]. intros a c Hin. apply (H2 a c). auto.
Qed.

Lemma thread_ok_shrinks s s' t : shrinks s s' -> thread_ok s t -> thread_ok s' t.
Proof. intros Hs [H1 H2]. split; [exact H1|eapply closing_ok_shrinks; eauto]. Qed.

Lemma empty_shrinks s s' : shrinks s s' -> pmap s = [] /\ cmap s = [] -> pmap s' = [] /\ cmap s' = [].
Proof. intros (Hp & Hc) [E1 E2]. split; eapply nil_of_sub; eauto. Qed.

Lemma lookup_none_key a m : lookup a m = None -> forall k v, In (k, v) m -> k <> a.
Proof.
  induction m as [|[k0 v0] m IH]; cbn; [intros _ ? ? []|]. destruct (N.eqb_spec k0 a); [discriminate|].
  intros H k v [E|Hin]; [inversion E; subst; assumption|eapply IH; eauto].
Qed.

Lemma remove_perm_keys a s k v : In (k, v) (pmap (remove_perm a s)) -> In (k, v) (pmap s) /\ k <> a.
Proof.
  unfold remove_perm. destruct (lookup a (pmap s)) eqn:E; cbn.
  - apply in_del.
  - intros H. split; [exact H|eapply lookup_none_key; eauto].
Qed.
Lemma remove_chan_keys a s k v : In (k, v) (cmap (remove_chan a s)) -> In (k, v) (cmap s) /\ k <> a.
Proof.
  unfold remove_chan. destruct (lookup a (cmap s)) eqn:E; cbn.
  - apply in_del.
  - intros H. split; [exact H|eapply lookup_none_key; eauto].
Qed.
Lemma remove_perm_cmap a s : cmap (remove_perm a s) = cmap s /\ closed (remove_perm a s) = closed s.
Proof. unfold remove_perm. destruct (lookup a (pmap s)); split; reflexivity. Qed.
Lemma remove_chan_pmap a s : pmap (remove_chan a s) = pmap s /\ closed (remove_chan a s) = closed s.
Proof. unfold remove_chan. destruct (lookup a (cmap s)); split; reflexivity. Qed.

Lemma no_pub_tail x l : no_pub (x :: l) = true -> pubstep x = false /\ no_pub l = true.
Proof. cbn. intros H. apply andb_true_iff in H as [H1 H2]. apply Bool.negb_true_iff in H1. auto. Qed.

Section Step.
  Variable ordp ordc : list step.

  Lemma finish_quiet a pp cp pid cid l : no_pub pp = true -> no_pub cp = true -> quiet (finish a pp cp pid cid l).
  Proof. intros H1 H2. unfold finish. destruct pp, cp; cbn; auto. Qed.

  (* one step of one thread *)
  Lemma tstep_quiet s t s' t' : thread_ok s t -> tstep ordp ordc s t = (s', t') ->
    shrinks s s' /\ thread_ok s' t' /\
    (closed s' = closed s \/ (closed s' = true /\ is_closing t' = true)) /\
    (is_closing t = true -> is_closing t' = false -> pmap s' = [] /\ cmap s' = []).
  Proof.
    intros [Hq Hc] H.
    assert (Same : forall t0, s' = s -> thread_ok s t0 -> t' = t0 -> (is_closing t = true -> is_closing t0 = true) ->
              shrinks s s' /\ thread_ok s' t' /\ (closed s' = closed s \/ (closed s' = true /\ is_closing t' = true)) /\
              (is_closing t = true -> is_closing t' = false -> pmap s' = [] /\ cmap s' = [])).
    { intros t0 -> Hok -> Hcl. split; [apply shrinks_refl|]. split; [exact Hok|]. split; [left; reflexivity|].
      intros H1 H2. apply Hcl in H1. congruence. }
    destruct t as [|a|a|a pprog cprog pp cp l| | |todo stop| |todo stop]; cbn [tstep] in H.
    - inversion H; subst. apply (Same TDone); auto. split; cbn; auto.
    - exfalso. apply Hq. reflexivity.
    - exfalso. apply Hq. reflexivity.
    - (* a running call that has nothing left to publish *)
      destruct (Hq eq_refl) as [Np Nc]. unfold run_step in H.
      destruct (next pprog cprog) as [[[x pprog'] cprog']|] eqn:En; [|inversion H; subst; apply (Same TDone); auto; split; cbn; auto].
      assert (Hx : pubstep x = false /\ no_pub pprog' = true /\ no_pub cprog' = true).
      { unfold next in En. destruct pprog as [|y r].
        - destruct cprog as [|y r]; [discriminate|]. inversion En; subst. apply no_pub_tail in Nc as [N1 N2]. auto.
        - inversion En; subst. apply no_pub_tail in Np as [N1 N2]. auto. }
      destruct Hx as (Hx & Np' & Nc').
      assert (Fin : forall l0, thread_ok s' (finish a pprog' cprog' pp cp l0)).
      { intros l0. split; [intros _; apply finish_quiet; assumption|]. unfold finish. destruct pprog', cprog'; exact I. }
      assert (Done : forall st, s' = st -> pmap st = pmap s -> cmap st = cmap s -> closed st = closed s ->
                (exists l0, t' = finish a pprog' cprog' pp cp l0) \/ t' = TDone \/ t' = TRun a pprog cprog pp cp l ->
                shrinks s s' /\ thread_ok s' t' /\ (closed s' = closed s \/ (closed s' = true /\ is_closing t' = true)) /\
                (is_closing (TRun a pprog cprog pp cp l) = true -> is_closing t' = false -> pmap s' = [] /\ cmap s' = [])).
      { intros st -> E1 E2 E3 Ht. split; [split; intros ? ? Hin; [rewrite E1 in Hin|rewrite E2 in Hin]; exact Hin|].
        split; [|split; [left; exact E3|discriminate]].
        destruct Ht as [(l0 & ->)|[->| ->]]; [apply Fin|split; cbn; auto|split; [intros _; cbn; auto|exact I]]. }
      unfold do_step in H. destruct x; try discriminate.
      + inversion H; subst. eapply Done; try reflexivity. left. eauto.
      + inversion H; subst. eapply Done; try reflexivity. left. eauto.
      + destruct (chlock s); inversion H; subst; eapply Done; try reflexivity; [right; right; reflexivity|left; eauto].
      + destruct (lk l); inversion H; subst; eapply Done; try reflexivity; [left; eauto|right; left; reflexivity].
      + inversion H; subst. eapply Done; try reflexivity. left. eauto.
      + inversion H; subst. eapply Done; try reflexivity. left. eauto.
    - (* Close: test-and-close *)
      destruct (closed s) eqn:Ecl; inversion H; subst.
      + apply (Same TDone); auto. split; cbn; auto.
      + split; [split; cbn; auto|]. split; [split; [discriminate|exact I]|]. split; [right; split; reflexivity|discriminate].
    - inversion H; subst. split; [apply shrinks_refl|]. split; [|split; [left; reflexivity|intros _ Hf; cbn in Hf; discriminate Hf]].
      split; [discriminate|]. cbn. intros a p Hin. unfold keys. apply (in_map fst _ _ Hin).
    - (* TCloseP *)
      cbn in Hc.
      assert (Stop : forall p, (s', t') = (set_pstopped (touch_timer p (parmed s) s) (p :: pstopped s), TCloseP todo None) ->
                shrinks s s' /\ thread_ok s' t' /\ (closed s' = closed s \/ (closed s' = true /\ is_closing t' = true)) /\
                (is_closing (TCloseP todo stop) = true -> is_closing t' = false -> pmap s' = [] /\ cmap s' = [])).
      { intros p E. inversion E; subst. unfold touch_timer. destruct (has_id p (parmed s)).
        all: split; [split; cbn; auto|]; split; [split; [discriminate|cbn; exact Hc]|]; split; [left; reflexivity|intros _ Hf; cbn in Hf; discriminate Hf]. }
      destruct todo as [|[a p0] r]; destruct stop as [p|]; cbv beta iota in H.
      + apply (Stop p). symmetry. exact H.
      + inversion H; subst. split; [apply shrinks_refl|]. split; [|split; [left; reflexivity|intros _ Hf; cbn in Hf; discriminate Hf]].
        split; [discriminate|]. cbn. destruct (pmap s') as [|[a p] r] eqn:E; [reflexivity|]. exfalso. apply (Hc a p). left. reflexivity.
      + apply (Stop p). symmetry. exact H.
      + inversion H; subst. split; [apply remove_perm_shrinks|]. split; [|split; [left; apply remove_perm_cmap|intros _ Hf; cbn in Hf; discriminate Hf]].
        split; [discriminate|]. cbn. intros k v Hin. apply remove_perm_keys in Hin as [Hin Hne].
        apply Hc in Hin. cbn in Hin. destruct Hin as [E|Hin]; [congruence|exact Hin].
    - cbn in Hc. destruct (chlock s); inversion H; subst.
      + apply (Same TCloseCS); auto. split; [discriminate|exact Hc].
      + split; [apply shrinks_refl|]. split; [|split; [left; reflexivity|intros _ Hf; cbn in Hf; discriminate Hf]].
        split; [discriminate|]. cbn. split; [exact Hc|]. intros a c Hin. unfold keys. apply (in_map fst _ _ Hin).
    - (* TCloseC *)
      cbn in Hc. destruct Hc as [Hp Hc].
      assert (Stop : forall c, (s', t') = (set_cstopped (touch_timer c (carmed s) s) (c :: cstopped s), TCloseC todo None) ->
                shrinks s s' /\ thread_ok s' t' /\ (closed s' = closed s \/ (closed s' = true /\ is_closing t' = true)) /\
                (is_closing (TCloseC todo stop) = true -> is_closing t' = false -> pmap s' = [] /\ cmap s' = [])).
      { intros c E. inversion E; subst. unfold touch_timer. destruct (has_id c (carmed s)).
        all: split; [split; cbn; auto|]; split; [split; [discriminate|cbn; auto]|]; split; [left; reflexivity|intros _ Hf; cbn in Hf; discriminate Hf]. }
      destruct todo as [|[a c0] r]; destruct stop as [c|]; cbv beta iota in H.
      + apply (Stop c). symmetry. exact H.
      + inversion H; subst. split; [apply shrinks_refl|]. split; [split; cbn; auto|]. split; [left; reflexivity|].
        intros _ _. split; [exact Hp|]. destruct (cmap s') as [|[a c] r] eqn:E; [reflexivity|]. exfalso. apply (Hc a c). left. reflexivity.
      + apply (Stop c). symmetry. exact H.
      + destruct (chlock s); inversion H; subst.
        * apply (Same (TCloseC ((a, c0) :: r) None)); auto. split; [discriminate|]. cbn. auto.
        * split; [apply remove_chan_shrinks|]. split; [|split; [left; apply remove_chan_pmap|intros _ Hf; cbn in Hf; discriminate Hf]].
          split; [discriminate|]. cbn. split; [rewrite (proj1 (remove_chan_pmap a s)); exact Hp|].
          intros k v Hin. apply remove_chan_keys in Hin as [Hin Hne].
          apply Hc in Hin. cbn in Hin. destruct Hin as [E|Hin]; [congruence|exact Hin].
  Qed.
End Step.

From Turn Require Import TeardownP.

Section Run.
  Variable ordp ordc : list step.

  Lemma existsb_nth {A} (f : A -> bool) l : existsb f l = true -> exists j t, nth_error l j = Some t /\ f t = true.
  Proof.
    induction l as [|x l IH]; cbn; [discriminate|]. intros H. apply orb_true_iff in H as [H|H].
    - exists 0%nat, x. auto.
    - destruct (IH H) as (j & t & Hj & Ht). exists (S j), t. auto.
  Qed.
  Lemma nth_existsb {A} (f : A -> bool) l j t : nth_error l j = Some t -> f t = true -> existsb f l = true.
  Proof. intros Hj Ht. apply existsb_exists. exists t. split; [eapply nth_error_In; eauto|exact Ht]. Qed.

  Lemma wstep_qinv w o : QInv w -> QInv (wstep ordp ordc w o).
  Proof.
    intros [Qt Qc]. destruct w as [s th]. cbn [fst snd] in *. unfold wstep. destruct (crashed s); [constructor; assumption|].
    assert (Keep : forall s', shrinks s s' -> closed s' = closed s -> QInv (s', th)).
    { intros s' Hs Hcl. constructor; cbn [fst snd].
      - eapply Forall_impl; [|exact Qt]. intros t. apply thread_ok_shrinks. exact Hs.
      - rewrite Hcl. intros Hc. destruct (Qc Hc) as [H|H]; [left; exact H|right; eapply empty_shrinks; eauto]. }
    destruct o as [i|p|c].
    - destruct (nth_error th i) as [t|] eqn:Hi; [|constructor; assumption].
      destruct (tstep ordp ordc s t) as [s' t'] eqn:Hst.
      assert (Hok : thread_ok s t) by (rewrite Forall_forall in Qt; apply Qt; eapply nth_error_In; eauto).
      destruct (tstep_quiet ordp ordc s t s' t' Hok Hst) as (Hsh & Hok' & Hcl & Hfin).
      constructor; cbn [fst snd].
      + apply Forall_upd; [|exact Hok']. eapply Forall_impl; [|exact Qt]. intros x. apply thread_ok_shrinks. exact Hsh.
      + intros Hc. destruct Hcl as [Hcl|[_ Hcl]].
        * rewrite Hcl in Hc. destruct (Qc Hc) as [H|H]; [|right; eapply empty_shrinks; eauto].
          apply existsb_nth in H as (j & tj & Hj & Htj). destruct (Nat.eq_dec i j) as [->|Hne].
          -- rewrite Hi in Hj. inversion Hj; subst tj. destruct (is_closing t') eqn:Et'.
             ++ left. eapply nth_existsb; [eapply nth_error_upd_eq; eauto|exact Et'].
             ++ right. apply Hfin; auto.
          -- left. eapply nth_existsb; [rewrite nth_error_upd_neq by exact Hne; exact Hj|exact Htj].
        * left. eapply nth_existsb; [eapply nth_error_upd_eq; eauto|exact Hcl].
    - destruct (lookup p (parmed s)) as [a|]; [|constructor; assumption].
      destruct (memN p (pstopped s)); [constructor; assumption|].
      apply Keep; [|cbn; apply remove_perm_cmap].
      destruct (remove_perm_shrinks a s) as [H1 H2]. split; cbn; auto.
    - destruct (lookup c (carmed s)) as [a|]; [|constructor; assumption].
      destruct (memN c (cstopped s) || chlock s); [constructor; assumption|].
      apply Keep; [|cbn; apply remove_chan_pmap].
      destruct (remove_chan_shrinks a s) as [H1 H2]. split; cbn; auto.
  Qed.

  Lemma wrun_qinv sched : forall w, QInv w -> QInv (wrun ordp ordc sched w).
  Proof. induction sched as [|o r IH]; intros w H; [exact H|]. cbn. apply IH. apply wstep_qinv. exact H. Qed.

  Lemma qinv_start s th : closed s = false -> Forall quiet th -> QInv (s, th).
  Proof.
    intros Hc Hq. constructor; cbn [fst snd].
    - eapply Forall_impl; [|exact Hq]. intros t Ht. split; [intros _; exact Ht|]. destruct t; cbn in *; auto; contradiction.
    - rewrite Hc. discriminate.
  Qed.

  (* THE THEOREM *)
  Theorem quiet_close_leaves_nothing s th sched : closed s = false -> Forall quiet th ->
    let (s', th') := wrun ordp ordc sched (s, th) in
    Forall (fun t => t = TDone) th' -> closed s' = true -> pmap s' = [] /\ cmap s' = [].
  Proof.
    intros Hc Hq. pose proof (wrun_qinv sched _ (qinv_start s th Hc Hq)) as [Qt Qc].
    destruct (wrun ordp ordc sched (s, th)) as [s' th']. cbn [fst snd] in *. intros Hd Hcl.
    destruct (Qc Hcl) as [H|H]; [|exact H]. exfalso.
    apply existsb_nth in H as (j & t & Hj & Ht). rewrite Forall_forall in Hd. rewrite (Hd t (nth_error_In _ _ Hj)) in Ht. discriminate.
  Qed.
End Run.

(* with the orders of the repaired code a call that is inside a lifecycle callback has done all its publishing:
   AddPermission parked in OnPermissionCreated, AddChannelBind parked in the nested OnPermissionCreated and then in
   OnChannelCreated - whereas with "callback first" (the order [PCallback; PArm; PPublish]) it has not *)
Example parked_calls_are_quiet :
  quiet (TRun 1 [PCallback] [] 1 0 ls0) /\ quiet (TRun 1 [PCallback] [CCallback; CUnlock] 1 1 ls0) /\
  quiet (TRun 1 [] [CCallback; CUnlock] 1 1 ls0) /\ ~ quiet (TRun 1 [PCallback; PArm; PPublish] [] 1 0 ls0).
Proof. repeat split; cbn; auto. intros [H _]. discriminate. Qed.

(* the remaining program of a call that has reached a lifecycle callback, read off a step order *)

Lemma no_pub_app a b : no_pub (a ++ b) = true -> no_pub b = true.
Proof. unfold no_pub. rewrite forallb_app. intros H. apply andb_true_iff in H as [_ H]. exact H. Qed.

Lemma from_first_suffix f l : forall pre x r, l = pre ++ x :: r -> f x = true -> exists pre', from_first f l = pre' ++ x :: r.
Proof.
  intros pre. revert l. induction pre as [|y pre IH]; intros l x r -> Hx; cbn.
  - rewrite Hx. exists []. reflexivity.
  - destruct (f y); [exists (y :: pre); reflexivity|]. eapply IH; eauto.
Qed.
Lemma after_first_suffix f l pre x r : l = pre ++ x :: r -> f x = true -> exists pre', after_first f l = pre' ++ r.
Proof.
  intros Hl Hx. destruct (from_first_suffix f l pre x r Hl Hx) as [pre' E]. unfold after_first. rewrite E.
  destruct pre' as [|z p]; cbn; [exists []; reflexivity|]. exists (p ++ [x]). rewrite <- app_assoc. reflexivity.
Qed.

Example callbacks_last_fixed : callbacks_last ordp_fixed ordc_code = true.
Proof. reflexivity. Qed.
Example callbacks_first_is_not : callbacks_last [PCallback; PArm; PPublish] ordc_code = false.
Proof. reflexivity. Qed.

Lemma callbacks_last_quiet ordp ordc : callbacks_last ordp ordc = true -> forall a pid cid l,
  quiet (TRun a (from_first is_cb ordp) [] pid cid l) /\
  quiet (TRun a (from_first is_cb ordp) (after_first is_cadd ordc) pid cid l) /\
  quiet (TRun a [] (from_first is_cb ordc) pid cid l).
Proof.
  unfold callbacks_last. intros H a pid cid l. apply andb_true_iff in H as [H H3]. apply andb_true_iff in H as [H1 H2].
  cbn. auto.
Qed.
