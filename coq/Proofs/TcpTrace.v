(* History-level theorem for C16: the whole trace predicate of Check/C16Check.v holds on every trace of Model/TcpRelay.v
   whose connection ids are fresh (the server draws them at random and retries on a collision with a live one; an id
   of a connection that is gone coming back is the 2^-32 event excluded here). *)
From Turn Require Import Bytes BytesP Relay RelayBase TcpRelay TcpBase Common RelayCheck RelayProps C16Check C04TcpCheck TcpIso.
From Coq Require Import ZifyN ZifyNat ZifyBool.
Open Scope Z_scope.

Lemma bind_timeout_pos : 0 < bind_timeout.
Proof. unfold bind_timeout, sec. lia. Qed.

(* ---------- invariant of the model ---------- *)
Record MInv (s : tstate) : Prop := {
  m_lock : tlocked s = false;
  m_nd : NoDup (map ta_client (tallocs s));
  m_ids : forall a x b y, In a (tallocs s) -> In x (ta_conns a) -> In b (tallocs s) -> In y (ta_conns b) ->
            tc_id x = tc_id y -> a = b /\ x = y;
  m_dl : forall a x, In a (tallocs s) -> In x (ta_conns a) -> tc_bound x = false -> tnow s < tc_dl x }.

Lemma minv_init : MInv tinit.
Proof. constructor; cbn; [reflexivity|constructor|intros ? ? ? ? []|intros ? ? []]. Qed.

Lemma has_conn_id_false cid l : has_conn_id cid l = false -> forall b y, In b l -> In y (ta_conns b) -> tc_id y <> cid.
Proof.
  unfold has_conn_id. intros H b y Hb Hy E. apply Bool.not_true_iff_false in H. apply H.
  apply existsb_exists. exists b. split; [exact Hb|]. apply existsb_exists. exists y. split; [exact Hy|]. apply N.eqb_eq. exact E.
Qed.

(* replacing one allocation by one with the same client whose connections are old ones (by id) or fresh ones *)
Lemma minv_replace s a a' :
  MInv s -> In a (tallocs s) -> ta_client a' = ta_client a ->
  (forall x, In x (ta_conns a') -> (exists x0, In x0 (ta_conns a) /\ tc_id x0 = tc_id x) \/
                                   (forall b y, In b (tallocs s) -> In y (ta_conns b) -> tc_id y <> tc_id x)) ->
  (forall x y, In x (ta_conns a') -> In y (ta_conns a') -> tc_id x = tc_id y -> x = y) ->
  (forall x, In x (ta_conns a') -> tc_bound x = false -> tnow s < tc_dl x) ->
  MInv {| tnow := tnow s; tallocs := treplace a' (tallocs s); tlocked := tlocked s |}.
Proof.
  intros [Hl Hnd Hids Hdl] Ha Hc Horig Huniq Hdl'. constructor; cbn [tnow tallocs tlocked].
  - exact Hl.
  - rewrite treplace_clients. exact Hnd.
  - intros b1 x b2 y H1 Hx H2 Hy E.
    apply (treplace_in_iff a a' _ _ Hnd Ha Hc) in H1. apply (treplace_in_iff a a' _ _ Hnd Ha Hc) in H2.
    destruct H1 as [->|[H1 N1]], H2 as [->|[H2 N2]].
    + split; [reflexivity|]. apply Huniq; assumption.
    + exfalso. destruct (Horig x Hx) as [(x0 & Hx0 & E0)|Hf].
      * destruct (Hids a x0 b2 y Ha Hx0 H2 Hy) as [Eab _]; [congruence|]. subst b2. apply N2. reflexivity.
      * apply (Hf b2 y H2 Hy). symmetry. exact E.
    + exfalso. destruct (Horig y Hy) as [(y0 & Hy0 & E0)|Hf].
      * destruct (Hids a y0 b1 x Ha Hy0 H1 Hx) as [Eab _]; [congruence|]. subst b1. apply N1. reflexivity.
      * apply (Hf b1 x H1 Hx). exact E.
    + apply (Hids b1 x b2 y); assumption.
  - intros b x Hb Hx Hub. apply (treplace_in_iff a a' _ _ Hnd Ha Hc) in Hb as [->|[Hb _]]; [apply Hdl'; assumption|eapply Hdl; eauto].
Qed.

(* the allocation found for an id is the one that has it *)
Lemma owner_of_unique s a x : MInv s -> In a (tallocs s) -> In x (ta_conns a) -> owner_of (tc_id x) (tallocs s) = Some (a, x).
Proof.
  intros M Ha Hx. destruct (owner_of (tc_id x) (tallocs s)) as [[b y]|] eqn:Ho.
  - apply owner_of_in in Ho as (Hb & Hy & E). destruct (m_ids s M b y a x Hb Hy Ha Hx E) as [-> ->]. reflexivity.
  - exfalso. eapply owner_of_exists; eauto.
Qed.

(* connection ids are drawn by the environment: each is new *)
Definition ev_cid (e : tevent) : option N :=
  match e with TConnect _ _ _ _ _ _ cid | TPeerConn _ _ cid => Some cid | _ => None end.
Fixpoint cids_fresh (used : list N) (h : list tevent) : Prop :=
  match h with
  | [] => True
  | e :: r => match ev_cid e with
              | Some k => ~ In k used /\ cids_fresh (k :: used) r
              | None => cids_fresh used r end
  end.
Definition used' (e : tevent) (used : list N) : list N := match ev_cid e with Some k => k :: used | None => used end.

(* ---------- how the predicate's bookkeeping relates to the model's state ---------- *)
Definition oe_cid (e : N * (addr * addr * Z)) := fst e.
Definition oe_client (e : N * (addr * addr * Z)) := fst (fst (snd e)).
Definition oe_peer (e : N * (addr * addr * Z)) := snd (fst (snd e)).
Definition oe_t0 (e : N * (addr * addr * Z)) := snd (snd e).

Record KInv (s : tstate) (st : kst) (used : list N) : Prop := {
  k1 : k_now st = tnow s;
  k2 : forall c, user_get c (k_users st) = option_map ta_user (tfind c (tallocs s));
  k3 : forall a i, In a (tallocs s) -> In i (ta_perms a) ->
         existsb (fun q => addr_eqb (fst q) (ta_client a) && (snd q =? i)%N) (k_perms st) = true;
  k4 : forall a x, In a (tallocs s) -> In x (ta_conns a) -> ann_get (tc_id x) (k_ann st) = Some (ta_client a, tc_dl x - bind_timeout);
  k5 : forall k, ann_get k (k_ann st) <> None -> In k used;
  k6 : forall k, In k (k_bound st) -> ann_get k (k_ann st) <> None;
  k6b : forall a x, In a (tallocs s) -> In x (ta_conns a) -> (tc_bound x = true <-> In (tc_id x) (k_bound st));
  k7 : k_gone st = [];
  k8 : forall c a, tfind c (tallocs s) = Some a -> k_relay_of st c = Some (ta_relay a);
  k9 : forall e, In e (k_open st) -> exists a x, tfind (oe_client e) (tallocs s) = Some a /\ In x (ta_conns a) /\
         tc_id x = oe_cid e /\ tc_peer x = oe_peer e /\ tc_bound x = false /\ tc_dl x = oe_t0 e + bind_timeout }.

Definition k0 : kst := {| k_now := 0; k_users := []; k_perms := []; k_ann := []; k_bound := []; k_gone := []; k_relays := []; k_open := [] |}.
Lemma kinv_init : KInv tinit k0 [].
Proof.
  constructor; cbn.
  - reflexivity.
  - intros c. reflexivity.
  - intros ? ? [].
  - intros ? ? [].
  - intros k H. exfalso. apply H. reflexivity.
  - intros ? [].
  - intros ? ? [].
  - reflexivity.
  - intros c a H. discriminate.
  - intros ? [].
Qed.

(* ---------- actions that announce nothing, bind nothing, deliver nothing ---------- *)
Definition plain (a : taction) : Prop :=
  match a with TError _ _ _ _ | TBindError _ _ _ | TPeerClosed _ _ | TDataClosed _ | TDeliver _ _ _ => True | _ => False end.

Lemma plain_anns t e acts : Forall plain acts -> k_anns t e acts = [].
Proof. induction 1 as [|a l Ha Hl IH]; [reflexivity|]. cbn [k_anns flat_map]. fold (k_anns t e l). rewrite IH.
  destruct a; cbn in Ha; try contradiction; reflexivity. Qed.
Lemma plain_binds acts : Forall plain acts -> flat_map (fun a => match a with TBindSuccess _ _ k => [k] | _ => [] end) acts = [].
Proof. induction 1 as [|a l Ha Hl IH]; [reflexivity|]. cbn [flat_map]. rewrite IH. destruct a; cbn in Ha; try contradiction; reflexivity. Qed.
Lemma plain_noblock acts : Forall plain acts -> k_noblock acts = true.
Proof. intros H. unfold k_noblock. apply Bool.negb_true_iff. apply Bool.not_true_is_false. intros Hc.
  apply existsb_exists in Hc as (a & Ha & E). rewrite Forall_forall in H. specialize (H a Ha). destruct a; cbn in *; try discriminate; contradiction. Qed.
Lemma plain_attempts st acts : Forall plain acts -> k_attempts st acts = true.
Proof. intros H. apply forallb_forall. intros a Ha. rewrite Forall_forall in H. specialize (H a Ha). destruct a; cbn in *; try reflexivity; contradiction. Qed.
Lemma plain_binds_ok st t e acts : Forall plain acts -> k_binds st t e acts = true.
Proof. intros H. apply forallb_forall. intros a Ha. rewrite Forall_forall in H. specialize (H a Ha). destruct a; cbn in *; try reflexivity; contradiction. Qed.
Definition nodeliver (a : taction) : Prop := match a with TDeliver _ _ _ => False | _ => True end.
Lemma plain_data st e acts : Forall plain acts -> Forall nodeliver acts -> k_data st e acts = true.
Proof. intros H H2. apply forallb_forall. intros a Ha. rewrite Forall_forall in H, H2. specialize (H a Ha). specialize (H2 a Ha).
  destruct a; cbn in *; try reflexivity; contradiction. Qed.
Lemma plain_no_bindsuccess acts k : Forall plain acts ->
  existsb (fun a => match a with TBindSuccess _ _ k' => (k' =? k)%N | _ => false end) acts = false.
Proof. intros H. apply Bool.not_true_is_false. intros Hc. apply existsb_exists in Hc as (a & Ha & E).
  rewrite Forall_forall in H. specialize (H a Ha). destruct a; cbn in *; try discriminate; contradiction. Qed.

(* with nothing announced the open list only shrinks *)
Lemma open'_subset st t e acts x : k_anns t e acts = [] -> In x (k_open' st t e acts) -> In x (k_open st).
Proof.
  intros Ha. unfold k_open'. rewrite Ha. cbn [map app].
  assert (F : In x (filter (fun x0 => negb (k_closed_here st acts x0))
                 (filter (fun x0 => negb (existsb (fun a => match a with TBindSuccess _ _ k => (k =? fst x0)%N | _ => false end) acts)) (k_open st))) -> In x (k_open st)).
  { intros H. apply filter_In in H as [H _]. apply filter_In in H as [H _]. exact H. }
  destruct e; try exact F. intros H. apply filter_In in H as [H _]. apply F. exact H.
Qed.

(* an entry of the open list is within its 30 seconds *)
Lemma open_in_time s st used x : MInv s -> KInv s st used -> In x (k_open st) -> tnow s < oe_t0 x + bind_timeout.
Proof.
  intros M K Hx. destruct (k9 _ _ _ K x Hx) as (a & y & Hf & Hy & _ & _ & Hb & Hd). rewrite <- Hd.
  apply tfind_some in Hf as [Ha _]. eapply m_dl; eauto.
Qed.
Lemma deadline_subset s st used t op : MInv s -> KInv s st used -> t = tnow s -> (forall x, In x op -> In x (k_open st)) -> k_deadline t op = true.
Proof.
  intros M K -> Hs. apply forallb_forall. intros x Hx. apply Z.ltb_lt. apply (open_in_time s st used x M K). apply Hs. exact Hx.
Qed.

(* ---------- a step that leaves the model's state alone and announces / binds nothing ---------- *)
Lemma same_plain s st used e acts : MInv s -> KInv s st used -> Forall plain acts ->
  match e with TAlloc _ _ _ | TPerm _ _ | TEnd _ | TTick _ => False | _ => True end ->
  k_data st e acts = true -> k_owner_bind st (k_time st e) e acts = true ->
  fst (k_step st {| ts_ev := e; ts_acts := acts |}) = true /\
  KInv s (snd (k_step st {| ts_ev := e; ts_acts := acts |})) (used' e used).
Proof.
  intros M K Hp He Hd Ho. unfold k_step. cbn [fst snd ts_ev ts_acts].
  assert (Ht : k_time st e = tnow s) by (unfold k_time; rewrite (k1 _ _ _ K); destruct e; try contradiction; lia).
  assert (Hsub : forall x, In x (k_open' st (k_time st e) e acts) -> In x (k_open st)).
  { intros x. apply open'_subset. apply plain_anns. exact Hp. }
  split.
  - rewrite (plain_noblock _ Hp), (plain_anns _ _ _ Hp), (plain_attempts _ _ Hp), (plain_binds_ok _ _ _ _ Hp), Hd, Ho.
    rewrite (deadline_subset s st used _ _ M K Ht Hsub). reflexivity.
  - destruct K as [K1 K2 K3 K4 K5 K6 K6b K7 K8 K9].
    assert (Hu : forall k, In k used -> In k (used' e used)) by (intros k Hk; unfold used'; destruct (ev_cid e); [right|]; exact Hk).
    unfold k_state'. rewrite (plain_anns _ _ _ Hp), (plain_binds _ Hp). cbn [app].
    destruct e; try contradiction; constructor; cbn [k_now k_users k_perms k_ann k_bound k_gone k_relays k_open]; auto;
      try (intros x Hx; apply K9; apply Hsub; exact Hx).
Qed.

(* ---------- a new peer connection (Connect success / inbound connection announced) ---------- *)
Lemma ann_get_cons k k' v l : ann_get k ((k', v) :: l) = if (k' =? k)%N then Some v else ann_get k l.
Proof. unfold ann_get. cbn [find fst snd]. destruct (k' =? k)%N; reflexivity. Qed.

Lemma filter_all {A} (f : A -> bool) (l : list A) : (forall x, f x = true) -> filter f l = l.
Proof. intros H. induction l as [|x l IH]; cbn; [reflexivity|]. rewrite H, IH. reflexivity. Qed.

Lemma new_conn s st used e acts a cid p :
  MInv s -> KInv s st used -> In a (tallocs s) -> ~ In cid used -> has_conn_id cid (tallocs s) = false ->
  ((exists tid u v d, e = TConnect (ta_client a) tid (Some u) (Some p) v d cid /\ acts = [TSuccess (ta_client a) MConnect tid (Some cid)]) \/
   (exists relay, e = TPeerConn relay p cid /\ acts = [TAttempt (ta_client a) p cid] /\ existsb (N.eqb (ip p)) (ta_perms a) = true)) ->
  let x := {| tc_id := cid; tc_peer := p; tc_bound := false; tc_dl := tnow s + bind_timeout; tc_data := None |} in
  let s' := {| tnow := tnow s; tallocs := treplace (set_conns a (ta_conns a ++ [x])) (tallocs s); tlocked := tlocked s |} in
  fst (k_step st {| ts_ev := e; ts_acts := acts |}) = true /\ MInv s' /\
  KInv s' (snd (k_step st {| ts_ev := e; ts_acts := acts |})) (used' e used).
Proof.
  intros M K Ha Hfr Hid Hform x s'. pose proof (has_conn_id_false _ _ Hid) as Hnew.
  pose proof bind_timeout_pos as Hbt.
  assert (Hann0 : ann_get cid (k_ann st) = None).
  { destruct (ann_get cid (k_ann st)) eqn:E; [|reflexivity]. exfalso. apply Hfr. apply (k5 _ _ _ K). congruence. }
  assert (Hnb : ~ In cid (k_bound st)).
  { intros Hc. apply (k6 _ _ _ K) in Hc. congruence. }
  assert (Ht : k_time st e = tnow s).
  { unfold k_time. rewrite (k1 _ _ _ K). destruct Hform as [(? & ? & ? & ? & -> & _)|(? & -> & _)]; lia. }
  assert (Hanns : k_anns (tnow s) e acts = [(cid, (ta_client a, tnow s))]).
  { destruct Hform as [(? & ? & ? & ? & -> & ->)|(? & -> & -> & _)]; reflexivity. }
  assert (Hopen : k_open' st (tnow s) e acts = (cid, (ta_client a, p, tnow s)) :: k_open st).
  { destruct Hform as [(? & ? & ? & ? & -> & ->)|(? & -> & -> & _)]; unfold k_open'; cbn [k_anns flat_map app map fst snd];
      rewrite !filter_all by (intros; reflexivity); reflexivity. }
  assert (Hbs : flat_map (fun a0 => match a0 with TBindSuccess _ _ k => [k] | _ => [] end) acts = []).
  { destruct Hform as [(? & ? & ? & ? & _ & ->)|(? & _ & -> & _)]; reflexivity. }
  assert (M' : MInv s').
  { apply (minv_replace s a); auto.
    - cbn [set_conns ta_conns]. intros y Hy. apply in_app_iff in Hy as [Hy|[<-|[]]]; [left; eauto|right]. cbn [tc_id]. exact Hnew.
    - cbn [set_conns ta_conns]. intros y z Hy Hz E. apply in_app_iff in Hy as [Hy|[<-|[]]]; apply in_app_iff in Hz as [Hz|[<-|[]]].
      + apply (m_ids s M a y a z); auto.
      + exfalso. apply (Hnew a y Ha Hy). exact E.
      + exfalso. apply (Hnew a z Ha Hz). symmetry. exact E.
      + reflexivity.
    - cbn [set_conns ta_conns]. intros y Hy Hb. apply in_app_iff in Hy as [Hy|[<-|[]]]; [eapply m_dl; eauto|cbn; lia]. }
  split; [|split; [exact M'|]].
  - unfold k_step. cbn [fst ts_ev ts_acts]. rewrite Ht, Hanns, Hopen.
    assert (C1 : k_noblock acts = true) by (destruct Hform as [(? & ? & ? & ? & _ & ->)|(? & _ & -> & _)]; reflexivity).
    assert (C2 : k_fresh st [(cid, (ta_client a, tnow s))] = true) by (unfold k_fresh; cbn; rewrite Hann0; reflexivity).
    assert (C3 : k_attempts st acts = true).
    { destruct Hform as [(? & ? & ? & ? & _ & ->)|(? & _ & -> & Hperm)]; [reflexivity|]. cbn. rewrite Bool.andb_true_r.
      apply existsb_exists in Hperm as (i & Hi & E). apply N.eqb_eq in E. subst i. apply (k3 _ _ _ K a (ip p) Ha Hi). }
    assert (C4 : k_binds st (tnow s) e acts = true) by (destruct Hform as [(? & ? & ? & ? & -> & ->)|(? & -> & -> & _)]; reflexivity).
    assert (C5 : k_data st e acts = true) by (destruct Hform as [(? & ? & ? & ? & -> & ->)|(? & -> & -> & _)]; reflexivity).
    assert (C6 : k_owner_bind st (tnow s) e acts = true) by (destruct Hform as [(? & ? & ? & ? & -> & _)|(? & -> & _)]; reflexivity).
    rewrite C1, C2, C3, C4, C5, C6. cbn [andb k_deadline forallb snd]. apply andb_true_iff. split; [apply Z.ltb_lt; lia|].
    apply (deadline_subset s st used _ _ M K eq_refl). auto.
  - pose proof K as [K1 K2 K3 K4 K5 K6 K6b K7 K8 K9]. pose proof M as [_ Hnd _ _].
    assert (Hc' : ta_client (set_conns a (ta_conns a ++ [x])) = ta_client a) by reflexivity.
    assert (TF : forall c', tfind c' (tallocs s') = if addr_eqb (ta_client a) c' then Some (set_conns a (ta_conns a ++ [x])) else tfind c' (tallocs s)).
    { intros c'. apply (tfind_treplace a); auto. }
    assert (Hin' : forall b, In b (tallocs s') -> b = set_conns a (ta_conns a ++ [x]) \/ (In b (tallocs s) /\ ta_client b <> ta_client a)).
    { intros b Hb. apply (treplace_in_iff a _ _ _ Hnd Ha Hc') in Hb. exact Hb. }
    assert (Hfa : tfind (ta_client a) (tallocs s) = Some a) by (apply tfind_in_nodup; assumption).
    assert (Hus : used' e used = cid :: used) by (destruct Hform as [(? & ? & ? & ? & -> & _)|(? & -> & _)]; reflexivity).
    unfold k_step. cbn [snd ts_ev ts_acts]. unfold k_state'. rewrite Ht, Hanns, Hopen, Hbs, Hus. cbn [app].
    assert (Hst : forall (A : Type) (f g h : A), match e with TAlloc _ _ _ => f | TEnd _ => g | _ => h end = h)
      by (intros; destruct Hform as [(? & ? & ? & ? & -> & _)|(? & -> & _)]; reflexivity).
    assert (Hst2 : forall (A : Type) (f g h : A), match e with TPerm _ _ => f | TEnd _ => g | _ => h end = h)
      by (intros; destruct Hform as [(? & ? & ? & ? & -> & _)|(? & -> & _)]; reflexivity).
    constructor; cbn [k_now k_users k_perms k_ann k_bound k_gone k_relays k_open tnow].
    + reflexivity.
    + intros c'. replace (match e with TAlloc c u _ => _ | TEnd c => _ | _ => k_users st end) with (k_users st)
        by (destruct Hform as [(? & ? & ? & ? & -> & _)|(? & -> & _)]; reflexivity).
      rewrite K2, TF. destruct (addr_eqb (ta_client a) c') eqn:E; [|reflexivity]. apply addr_eqb_eq in E. subst c'. rewrite Hfa. reflexivity.
    + intros b i Hb Hi. replace (match e with TPerm c i0 => _ | TEnd c => _ | _ => k_perms st end) with (k_perms st)
        by (destruct Hform as [(? & ? & ? & ? & -> & _)|(? & -> & _)]; reflexivity).
      apply Hin' in Hb as [->|[Hb _]]; [apply (K3 a i Ha Hi)|apply (K3 b i Hb Hi)].
    + intros b y Hb Hy. rewrite ann_get_cons. apply Hin' in Hb as [->|[Hb _]].
      * cbn [set_conns ta_conns ta_client] in *. apply in_app_iff in Hy as [Hy|[<-|[]]].
        -- destruct (N.eqb_spec cid (tc_id y)) as [E|E]; [exfalso; apply (Hnew a y Ha Hy); auto|apply K4; assumption].
        -- unfold x. cbn [tc_id tc_dl]. rewrite N.eqb_refl. replace (tnow s + bind_timeout - bind_timeout) with (tnow s) by lia. reflexivity.
      * destruct (N.eqb_spec cid (tc_id y)) as [E|E]; [exfalso; apply (Hnew b y Hb Hy); auto|apply K4; assumption].
    + intros k Hk. rewrite ann_get_cons in Hk. destruct (N.eqb_spec cid k) as [E|E]; [left; exact E|right; apply K5; exact Hk].
    + intros k Hk. rewrite ann_get_cons. destruct (cid =? k)%N; [discriminate|apply K6; exact Hk].
    + intros b y Hb Hy. apply Hin' in Hb as [->|[Hb _]].
      * cbn [set_conns ta_conns] in Hy. apply in_app_iff in Hy as [Hy|[<-|[]]]; [apply (K6b a y Ha Hy)|].
        unfold x. cbn [tc_bound tc_id]. split; [discriminate|intros Hc; contradiction].
      * apply (K6b b y Hb Hy).
    + exact K7.
    + intros c' b Hb. rewrite TF in Hb. unfold k_relay_of. cbn [k_relays].
      replace (match e with TAlloc c _ r => _ | TEnd c => _ | _ => k_relays st end) with (k_relays st)
        by (destruct Hform as [(? & ? & ? & ? & -> & _)|(? & -> & _)]; reflexivity).
      fold (k_relay_of st c'). destruct (addr_eqb (ta_client a) c') eqn:E.
      * inversion Hb; subst b. apply addr_eqb_eq in E. subst c'. cbn [set_conns ta_relay]. apply K8. exact Hfa.
      * apply K8. exact Hb.
    + intros o [<-|Ho].
      * exists (set_conns a (ta_conns a ++ [x])), x. unfold oe_client, oe_cid, oe_peer, oe_t0. cbn [fst snd].
        rewrite TF, addr_eqb_refl. split; [reflexivity|]. split; [cbn; apply in_app_iff; right; left; reflexivity|].
        repeat split; reflexivity.
      * destruct (K9 o Ho) as (b & y & Hf & Hy & E1 & E2 & E3 & E4). rewrite TF.
        destruct (addr_eqb (ta_client a) (oe_client o)) eqn:E.
        -- apply addr_eqb_eq in E. rewrite <- E, Hfa in Hf. inversion Hf; subst b.
           exists (set_conns a (ta_conns a ++ [x])), y. split; [reflexivity|]. split; [cbn; apply in_app_iff; left; exact Hy|auto].
        -- exists b, y. repeat split; assumption.
Qed.

Lemma existsb_Neqb k l : existsb (N.eqb k) l = true <-> In k l.
Proof. rewrite existsb_exists. split; [intros (x & Hx & E); apply N.eqb_eq in E; subst; exact Hx|intros H; exists k; split; [exact H|apply N.eqb_refl]]. Qed.

(* ---------- ConnectionBind succeeds ---------- *)
Lemma bind_ok s st used dc tid u k a x :
  MInv s -> KInv s st used -> In a (tallocs s) -> In x (ta_conns a) -> tc_id x = k -> ta_user a = u -> tc_bound x = false ->
  let x' := {| tc_id := k; tc_peer := tc_peer x; tc_bound := true; tc_dl := tc_dl x; tc_data := Some dc |} in
  let f := fun y => if (tc_id y =? k)%N then x' else y in
  let a' := set_conns a (map f (ta_conns a)) in
  let s' := {| tnow := tnow s; tallocs := treplace a' (tallocs s); tlocked := tlocked s |} in
  let e := TConnBind dc tid (Some u) (Some k) in
  let acts := [TBindSuccess dc tid k] in
  fst (k_step st {| ts_ev := e; ts_acts := acts |}) = true /\ MInv s' /\
  KInv s' (snd (k_step st {| ts_ev := e; ts_acts := acts |})) (used' e used).
Proof.
  intros M K Ha Hx Hk Hu Hb x' f a' s' e acts. pose proof M as [_ Hnd Hids Hdl]. pose proof K as [K1 K2 K3 K4 K5 K6 K6b K7 K8 K9].
  assert (Hfa : tfind (ta_client a) (tallocs s) = Some a) by (apply tfind_in_nodup; assumption).
  assert (Ht : k_time st e = tnow s) by (unfold k_time, e; lia).
  assert (Hfid : forall y, tc_id (f y) = tc_id y).
  { intros y. unfold f. destruct (N.eqb_spec (tc_id y) k) as [E|E]; [cbn; auto|reflexivity]. }
  assert (Hfx : forall y, In y (ta_conns a) -> tc_id y = k -> y = x).
  { intros y Hy E. apply (Hids a y a x Ha Hy Ha Hx). congruence. }
  assert (Hfdl : forall y, In y (ta_conns a) -> tc_dl (f y) = tc_dl y).
  { intros y Hy. unfold f. destruct (N.eqb_spec (tc_id y) k) as [E|E]; [cbn; rewrite (Hfx y Hy E); reflexivity|reflexivity]. }
  assert (Hfpeer : forall y, In y (ta_conns a) -> tc_peer (f y) = tc_peer y).
  { intros y Hy. unfold f. destruct (N.eqb_spec (tc_id y) k) as [E|E]; [cbn; rewrite (Hfx y Hy E); reflexivity|reflexivity]. }
  assert (Hopen : forall o, In o (k_open' st (tnow s) e acts) -> In o (k_open st) /\ oe_cid o <> k).
  { intros o Ho. unfold k_open', e, acts in Ho. cbn [k_anns flat_map map app] in Ho.
    apply filter_In in Ho as [Ho _]. apply filter_In in Ho as [Ho Hf]. split; [exact Ho|].
    cbn in Hf. rewrite Bool.orb_false_r in Hf. apply Bool.negb_true_iff in Hf. apply N.eqb_neq in Hf. unfold oe_cid. congruence. }
  assert (M' : MInv s').
  { apply (minv_replace s a); auto; cbn [set_conns ta_conns a'].
    - intros y Hy. apply in_map_iff in Hy as (y0 & <- & Hy0). left. exists y0. split; [exact Hy0|]. symmetry. apply Hfid.
    - intros y z Hy Hz E. apply in_map_iff in Hy as (y0 & <- & Hy0). apply in_map_iff in Hz as (z0 & <- & Hz0).
      rewrite !Hfid in E. destruct (Hids a y0 a z0 Ha Hy0 Ha Hz0 E) as [_ ->]. reflexivity.
    - intros y Hy Hyb. apply in_map_iff in Hy as (y0 & <- & Hy0). unfold f in *.
      destruct (tc_id y0 =? k)%N; [discriminate|]. eapply Hdl; eauto. }
  split; [|split; [exact M'|]].
  - unfold k_step. cbn [fst ts_ev ts_acts]. rewrite Ht.
    assert (C4 : k_binds st (tnow s) e acts = true).
    { unfold k_binds, e, acts. cbn [forallb]. rewrite N.eqb_refl, K7, Bool.andb_true_r. cbn [existsb negb andb].
      assert (Hnb : existsb (N.eqb k) (k_bound st) = false).
      { apply Bool.not_true_is_false. intros Hc. apply existsb_Neqb in Hc. rewrite <- Hk in Hc. apply (K6b a x Ha Hx) in Hc. congruence. }
      rewrite Hnb. cbn [negb andb]. rewrite <- Hk, (K4 a x Ha Hx), K2, Hfa. cbn [option_map]. rewrite Hu, N.eqb_refl, Bool.andb_true_r.
      apply Z.ltb_lt. pose proof (Hdl a x Ha Hx Hb). lia. }
    assert (C6 : k_owner_bind st (tnow s) e acts = true).
    { unfold k_owner_bind, e, acts. destruct (find _ (k_open st)); [|reflexivity]. cbn [existsb]. rewrite N.eqb_refl. cbn.
      destruct (_ && _); reflexivity. }
    rewrite C4, C6. unfold e at 1 2 3, acts at 1 2 3 4. cbn [k_noblock existsb negb k_anns flat_map k_fresh forallb map nodupb k_attempts k_data andb].
    apply (deadline_subset s st used _ _ M K eq_refl). intros o Ho. apply Hopen. exact Ho.
  - assert (Hc' : ta_client a' = ta_client a) by reflexivity.
    assert (TF : forall c', tfind c' (tallocs s') = if addr_eqb (ta_client a) c' then Some a' else tfind c' (tallocs s)).
    { intros c'. apply (tfind_treplace a); auto. }
    assert (Hin' : forall b, In b (tallocs s') -> b = a' \/ (In b (tallocs s) /\ ta_client b <> ta_client a)).
    { intros b Hb0. apply (treplace_in_iff a _ _ _ Hnd Ha Hc') in Hb0. exact Hb0. }
    unfold k_step. cbn [snd ts_ev ts_acts]. unfold k_state'. rewrite Ht. unfold used', e at 1. cbn [ev_cid].
    unfold e at 1 2 3 4, acts at 1 2. cbn [k_anns flat_map app].
    constructor; cbn [k_now k_users k_perms k_ann k_bound k_gone k_relays k_open tnow].
    + reflexivity.
    + intros c'. rewrite K2, TF. destruct (addr_eqb (ta_client a) c') eqn:E; [|reflexivity]. apply addr_eqb_eq in E. subst c'. rewrite Hfa. reflexivity.
    + intros b i Hb0 Hi. apply Hin' in Hb0 as [->|[Hb0 _]]; [apply (K3 a i Ha Hi)|apply (K3 b i Hb0 Hi)].
    + intros b y Hb0 Hy. apply Hin' in Hb0 as [->|[Hb0 _]]; [|apply K4; assumption].
      cbn [a' set_conns ta_conns ta_client] in *. apply in_map_iff in Hy as (y0 & <- & Hy0). rewrite Hfid, (Hfdl y0 Hy0). apply K4; assumption.
    + exact K5.
    + intros k0 [<-|Hk0]; [rewrite <- Hk, (K4 a x Ha Hx); discriminate|apply K6; exact Hk0].
    + intros b y Hb0 Hy. apply Hin' in Hb0 as [->|[Hb0 Hne]].
      * cbn [a' set_conns ta_conns] in Hy. apply in_map_iff in Hy as (y0 & <- & Hy0). rewrite Hfid. unfold f.
        destruct (N.eqb_spec (tc_id y0) k) as [E|E].
        -- cbn [tc_bound]. split; [intros _; left; auto|reflexivity].
        -- rewrite (K6b a y0 Ha Hy0). split; [intros H; right; exact H|intros [H|H]; [congruence|exact H]].
      * rewrite (K6b b y Hb0 Hy). split; [intros H; right; exact H|intros [H|H]; [|exact H]].
        exfalso. apply Hne. destruct (Hids a x b y Ha Hx Hb0 Hy) as [<- _]; [congruence|reflexivity].
    + exact K7.
    + intros c' b Hb0. rewrite TF in Hb0. change (k_relay_of st c' = Some (ta_relay b)).
      destruct (addr_eqb (ta_client a) c') eqn:E; [|apply K8; exact Hb0].
      inversion Hb0; subst b. apply addr_eqb_eq in E. subst c'. cbn [a' set_conns ta_relay]. apply K8. exact Hfa.
    + intros o Ho. apply Hopen in Ho as [Ho Hne]. destruct (K9 o Ho) as (b & y & Hf & Hy & E1 & E2 & E3 & E4). rewrite TF.
      destruct (addr_eqb (ta_client a) (oe_client o)) eqn:E.
      * apply addr_eqb_eq in E. rewrite <- E, Hfa in Hf. inversion Hf; subst b.
        exists a', y. split; [reflexivity|]. split; [|repeat split; assumption].
        cbn [a' set_conns ta_conns]. apply in_map_iff. exists y. split; [|exact Hy].
        unfold f. destruct (N.eqb_spec (tc_id y) k); [congruence|reflexivity].
      * exists b, y. repeat split; assumption.
Qed.

(* ---------- one side of a bound pair closes: the pair goes ---------- *)
Lemma close_side_ok s st used cid cs acts a x :
  MInv s -> KInv s st used -> In a (tallocs s) -> In x (ta_conns a) -> tc_id x = cid -> tc_bound x = true ->
  Forall plain acts -> Forall nodeliver acts ->
  let s' := {| tnow := tnow s; tallocs := treplace (drop_conn cid a) (tallocs s); tlocked := tlocked s |} in
  let e := TCloseSide cid cs in
  fst (k_step st {| ts_ev := e; ts_acts := acts |}) = true /\ MInv s' /\
  KInv s' (snd (k_step st {| ts_ev := e; ts_acts := acts |})) (used' e used).
Proof.
  intros M K Ha Hx Hk Hb Hp Hnd0 s' e. pose proof M as [_ Hnd Hids Hdl]. pose proof K as [K1 K2 K3 K4 K5 K6 K6b K7 K8 K9].
  assert (Hfa : tfind (ta_client a) (tallocs s) = Some a) by (apply tfind_in_nodup; assumption).
  assert (Ht : k_time st e = tnow s) by (unfold k_time, e; lia).
  set (a' := drop_conn cid a).
  assert (Hsub : forall y, In y (ta_conns a') -> In y (ta_conns a)).
  { intros y Hy. unfold a', drop_conn in Hy. cbn in Hy. apply filter_In in Hy as [Hy _]. exact Hy. }
  assert (Hkeep : forall y, In y (ta_conns a) -> tc_bound y = false -> In y (ta_conns a')).
  { intros y Hy Hyb. unfold a', drop_conn. cbn. apply filter_In. split; [exact Hy|].
    apply Bool.negb_true_iff. apply N.eqb_neq. intros E. assert (y = x) by (apply (Hids a y a x Ha Hy Ha Hx); congruence). congruence. }
  assert (M' : MInv s').
  { apply (minv_replace s a); auto.
    - intros y Hy. left. exists y. split; [apply Hsub; exact Hy|reflexivity].
    - intros y z Hy Hz E. apply (Hids a y a z); auto.
    - intros y Hy Hyb. eapply Hdl; eauto. }
  assert (Hopen : forall o, In o (k_open' st (tnow s) e acts) -> In o (k_open st)).
  { intros o. apply open'_subset. apply plain_anns. exact Hp. }
  split; [|split; [exact M'|]].
  - unfold k_step. cbn [fst ts_ev ts_acts]. rewrite Ht.
    rewrite (plain_noblock _ Hp), (plain_anns _ _ _ Hp), (plain_attempts _ _ Hp), (plain_binds_ok _ _ _ _ Hp), (plain_data _ _ _ Hp Hnd0).
    cbn [k_fresh forallb map nodupb andb k_owner_bind e]. apply (deadline_subset s st used _ _ M K eq_refl). exact Hopen.
  - assert (Hc' : ta_client a' = ta_client a) by reflexivity.
    assert (TF : forall c', tfind c' (tallocs s') = if addr_eqb (ta_client a) c' then Some a' else tfind c' (tallocs s)).
    { intros c'. apply (tfind_treplace a); auto. }
    assert (Hin' : forall b, In b (tallocs s') -> b = a' \/ (In b (tallocs s) /\ ta_client b <> ta_client a)).
    { intros b Hb0. apply (treplace_in_iff a _ _ _ Hnd Ha Hc') in Hb0. exact Hb0. }
    unfold k_step. cbn [snd ts_ev ts_acts]. unfold k_state'. rewrite Ht, (plain_anns _ _ _ Hp), (plain_binds _ Hp). unfold used', e at 1. cbn [ev_cid app].
    unfold e at 1 2 3. constructor; cbn [k_now k_users k_perms k_ann k_bound k_gone k_relays k_open tnow].
    + reflexivity.
    + intros c'. rewrite K2, TF. destruct (addr_eqb (ta_client a) c') eqn:E; [|reflexivity]. apply addr_eqb_eq in E. subst c'. rewrite Hfa. reflexivity.
    + intros b i Hb0 Hi. apply Hin' in Hb0 as [->|[Hb0 _]]; [apply (K3 a i Ha Hi)|apply (K3 b i Hb0 Hi)].
    + intros b y Hb0 Hy. apply Hin' in Hb0 as [->|[Hb0 _]]; [apply (K4 a y Ha (Hsub y Hy))|apply K4; assumption].
    + exact K5.
    + exact K6.
    + intros b y Hb0 Hy. apply Hin' in Hb0 as [->|[Hb0 _]]; [apply (K6b a y Ha (Hsub y Hy))|apply (K6b b y Hb0 Hy)].
    + exact K7.
    + intros c' b Hb0. rewrite TF in Hb0. change (k_relay_of st c' = Some (ta_relay b)).
      destruct (addr_eqb (ta_client a) c') eqn:E; [|apply K8; exact Hb0].
      inversion Hb0; subst b. apply addr_eqb_eq in E. subst c'. exact (K8 _ a Hfa).
    + intros o Ho. apply Hopen in Ho. destruct (K9 o Ho) as (b & y & Hf & Hy & E1 & E2 & E3 & E4). rewrite TF.
      destruct (addr_eqb (ta_client a) (oe_client o)) eqn:E.
      * apply addr_eqb_eq in E. rewrite <- E, Hfa in Hf. inversion Hf; subst b.
        exists a', y. split; [reflexivity|]. split; [apply Hkeep; assumption|repeat split; assumption].
      * exists b, y. repeat split; assumption.
Qed.

(* ---------- association lists keyed by client ---------- *)
Lemma afind_filter {V} c c0 (l : list (addr * V)) :
  find (fun p => addr_eqb (fst p) c) (filter (fun p => negb (addr_eqb (fst p) c0)) l) =
  if addr_eqb c0 c then None else find (fun p => addr_eqb (fst p) c) l.
Proof.
  induction l as [|p l IH]; cbn [filter find]; [destruct (addr_eqb c0 c); reflexivity|].
  destruct (addr_eqb (fst p) c0) eqn:E0; cbn [negb].
  - rewrite IH. destruct (addr_eqb c0 c) eqn:E; [reflexivity|]. destruct (addr_eqb (fst p) c) eqn:E1; [|reflexivity].
    apply addr_eqb_eq in E0, E1. subst. rewrite addr_eqb_refl in E. discriminate.
  - cbn [find]. destruct (addr_eqb (fst p) c) eqn:E1; [|exact IH].
    destruct (addr_eqb c0 c) eqn:E; [|reflexivity]. apply addr_eqb_eq in E, E1. subst. rewrite addr_eqb_refl in E0. discriminate.
Qed.
Lemma user_get_filter c c0 l : user_get c (filter (fun p => negb (addr_eqb (fst p) c0)) l) = if addr_eqb c0 c then None else user_get c l.
Proof. unfold user_get. rewrite afind_filter. destruct (addr_eqb c0 c); reflexivity. Qed.
Lemma user_get_cons c c0 u l : user_get c ((c0, u) :: l) = if addr_eqb c0 c then Some u else user_get c l.
Proof. unfold user_get. cbn [find fst snd]. destruct (addr_eqb c0 c); reflexivity. Qed.

Lemma tremove_absent c l : tfind c l = None -> tremove c l = l.
Proof. induction l as [|x l IH]; cbn; [reflexivity|]. destruct (addr_eqb (ta_client x) c); [discriminate|]. intros H. rewrite IH; auto. Qed.

(* ---------- TAlloc ---------- *)
Lemma alloc_ok s st used c u r s' acts :
  MInv s -> KInv s st used -> tstep s (TAlloc c u r) = (s', acts) ->
  fst (k_step st {| ts_ev := TAlloc c u r; ts_acts := acts |}) = true /\ MInv s' /\
  KInv s' (snd (k_step st {| ts_ev := TAlloc c u r; ts_acts := acts |})) (used' (TAlloc c u r) used).
Proof.
  intros M K H. pose proof M as [Hl Hnd Hids Hdl]. pose proof K as [K1 K2 K3 K4 K5 K6 K6b K7 K8 K9].
  unfold tstep in H.
  assert (Hconj : fst (k_step st {| ts_ev := TAlloc c u r; ts_acts := [] |}) = true).
  { unfold k_step. cbn [fst ts_ev ts_acts k_noblock existsb negb k_anns flat_map k_fresh forallb map nodupb k_attempts k_binds k_data k_owner_bind andb].
    apply (deadline_subset s st used _ _ M K); [unfold k_time; lia|]. intros o. apply open'_subset. reflexivity. }
  assert (Hopen : forall o, In o (k_open' st (k_time st (TAlloc c u r)) (TAlloc c u r) []) -> In o (k_open st)).
  { intros o. apply open'_subset. reflexivity. }
  destruct (tfind c (tallocs s)) as [a0|] eqn:Hf; inversion H; subst; clear H; (split; [exact Hconj|]).
  - split; [exact M|]. unfold k_step. cbn [snd ts_ev ts_acts]. unfold k_state', used'. cbn [ev_cid k_anns flat_map app].
    rewrite K2, Hf. cbn [option_map]. constructor; cbn [k_now k_users k_perms k_ann k_bound k_gone k_relays k_open]; auto.
    all: try (unfold k_time; lia).
    all: try (intros o Ho; apply K9; apply Hopen; exact Ho).
  - set (a0 := {| ta_client := c; ta_user := u; ta_relay := r; ta_perms := []; ta_conns := [] |}).
    assert (Hin' : forall b, In b (tallocs s ++ [a0]) -> In b (tallocs s) \/ b = a0).
    { intros b Hb. apply in_app_iff in Hb as [Hb|[<-|[]]]; auto. }
    split.
    + constructor; cbn [tnow tallocs tlocked].
      * exact Hl.
      * rewrite map_app. apply NoDup_app_intro; [exact Hnd|repeat constructor; intros []|].
        intros x Hx [<-|[]]. apply (tfind_none _ _ Hf). exact Hx.
      * intros b1 x b2 y H1 Hx H2 Hy E. apply Hin' in H1 as [H1| ->]; [|destruct Hx]. apply Hin' in H2 as [H2| ->]; [|destruct Hy].
        apply (Hids b1 x b2 y); assumption.
      * intros b x Hb Hx Hub. apply Hin' in Hb as [Hb| ->]; [eapply Hdl; eauto|destruct Hx].
    + unfold k_step. cbn [snd ts_ev ts_acts]. unfold k_state', used'. cbn [ev_cid k_anns flat_map app].
      rewrite K2, Hf. cbn [option_map]. constructor; cbn [k_now k_users k_perms k_ann k_bound k_gone k_relays k_open tnow tallocs]; auto.
      * unfold k_time. lia.
      * intros c'. rewrite user_get_cons, tfind_app, K2. cbn [ta_client a0].
        destruct (tfind c' (tallocs s)) as [b|] eqn:Hb; cbn [option_map].
        -- destruct (addr_eqb c c') eqn:E; [|reflexivity]. apply addr_eqb_eq in E. subst c'. congruence.
        -- destruct (addr_eqb c c'); reflexivity.
      * intros b i Hb Hi. apply Hin' in Hb as [Hb| ->]; [apply K3; assumption|destruct Hi].
      * intros b y Hb Hy. apply Hin' in Hb as [Hb| ->]; [apply K4; assumption|destruct Hy].
      * intros b y Hb Hy. apply Hin' in Hb as [Hb| ->]; [apply (K6b b y Hb Hy)|destruct Hy].
      * intros c' b Hb. unfold k_relay_of. cbn [k_relays find fst snd]. rewrite tfind_app in Hb.
        destruct (tfind c' (tallocs s)) as [b0|] eqn:Hb0.
        -- inversion Hb; subst b0. destruct (addr_eqb c c') eqn:E; [apply addr_eqb_eq in E; subst c'; congruence|]. apply (K8 c' b Hb0).
        -- cbn [ta_client a0] in Hb. destruct (addr_eqb c c'); [inversion Hb; reflexivity|discriminate].
      * intros o Ho. apply Hopen in Ho. destruct (K9 o Ho) as (b & y & Hfo & Hy & E1 & E2 & E3 & E4).
        exists b, y. rewrite tfind_app, Hfo. repeat split; assumption.
Qed.

(* ---------- TPerm ---------- *)
Lemma perm_ok s st used c i s' acts :
  MInv s -> KInv s st used -> tstep s (TPerm c i) = (s', acts) ->
  fst (k_step st {| ts_ev := TPerm c i; ts_acts := acts |}) = true /\ MInv s' /\
  KInv s' (snd (k_step st {| ts_ev := TPerm c i; ts_acts := acts |})) (used' (TPerm c i) used).
Proof.
  intros M K H. pose proof M as [Hl Hnd Hids Hdl]. pose proof K as [K1 K2 K3 K4 K5 K6 K6b K7 K8 K9].
  unfold tstep in H.
  assert (Hconj : fst (k_step st {| ts_ev := TPerm c i; ts_acts := [] |}) = true).
  { unfold k_step. cbn [fst ts_ev ts_acts k_noblock existsb negb k_anns flat_map k_fresh forallb map nodupb k_attempts k_binds k_data k_owner_bind andb].
    apply (deadline_subset s st used _ _ M K); [unfold k_time; lia|]. intros o. apply open'_subset. reflexivity. }
  assert (Hopen : forall o, In o (k_open' st (k_time st (TPerm c i)) (TPerm c i) []) -> In o (k_open st)).
  { intros o. apply open'_subset. reflexivity. }
  assert (Hgrow : forall b j, existsb (fun q => addr_eqb (fst q) (ta_client b) && (snd q =? j)%N) (k_perms st) = true ->
            existsb (fun q => addr_eqb (fst q) (ta_client b) && (snd q =? j)%N) ((c, i) :: k_perms st) = true).
  { intros b j Hb. cbn [existsb]. rewrite Hb. apply orb_true_r. }
  destruct (tfind c (tallocs s)) as [a|] eqn:Hf; inversion H; subst; clear H; (split; [exact Hconj|]).
  - apply tfind_some in Hf as [Ha Hc].
    set (a' := {| ta_client := c; ta_user := ta_user a; ta_relay := ta_relay a; ta_perms := i :: ta_perms a; ta_conns := ta_conns a |}).
    assert (Hc' : ta_client a' = ta_client a) by (cbn; auto).
    assert (Hfa : tfind (ta_client a) (tallocs s) = Some a) by (apply tfind_in_nodup; assumption).
    assert (M' : MInv {| tnow := tnow s; tallocs := treplace a' (tallocs s); tlocked := tlocked s |}).
    { apply (minv_replace s a); auto.
      - intros y Hy. left. exists y. split; [exact Hy|reflexivity].
      - intros y z Hy Hz E. apply (Hids a y a z); auto.
      - intros y Hy Hyb. eapply Hdl; eauto. }
    split; [exact M'|].
    assert (TF : forall c', tfind c' (treplace a' (tallocs s)) = if addr_eqb (ta_client a) c' then Some a' else tfind c' (tallocs s)).
    { intros c'. apply (tfind_treplace a); auto. }
    assert (Hin' : forall b, In b (treplace a' (tallocs s)) -> b = a' \/ (In b (tallocs s) /\ ta_client b <> ta_client a)).
    { intros b Hb0. apply (treplace_in_iff a _ _ _ Hnd Ha Hc') in Hb0. exact Hb0. }
    unfold k_step. cbn [snd ts_ev ts_acts]. unfold k_state', used'. cbn [ev_cid k_anns flat_map app].
    constructor; cbn [k_now k_users k_perms k_ann k_bound k_gone k_relays k_open tnow tallocs]; auto.
    + unfold k_time. lia.
    + intros c'. rewrite K2, TF. destruct (addr_eqb (ta_client a) c') eqn:E; [|reflexivity]. apply addr_eqb_eq in E. subst c'. rewrite Hfa. reflexivity.
    + intros b j Hb0 Hj. apply Hin' in Hb0 as [->|[Hb0 _]].
      * cbn [a' ta_perms ta_client] in *. destruct Hj as [<-|Hj].
        -- cbn [existsb fst snd]. rewrite addr_eqb_refl, N.eqb_refl. reflexivity.
        -- apply (Hgrow a' j). cbn [a' ta_client]. rewrite <- Hc. apply (K3 a j Ha Hj).
      * apply Hgrow. apply (K3 b j Hb0 Hj).
    + intros b y Hb0 Hy. apply Hin' in Hb0 as [->|[Hb0 _]]; [cbn [a' ta_client]; rewrite <- Hc; apply (K4 a y Ha Hy)|apply K4; assumption].
    + intros b y Hb0 Hy. apply Hin' in Hb0 as [->|[Hb0 _]]; [apply (K6b a y Ha Hy)|apply (K6b b y Hb0 Hy)].
    + intros c' b Hb0. rewrite TF in Hb0. change (k_relay_of st c' = Some (ta_relay b)).
      destruct (addr_eqb (ta_client a) c') eqn:E; [|apply K8; exact Hb0].
      inversion Hb0; subst b. apply addr_eqb_eq in E. subst c'. exact (K8 _ a Hfa).
    + intros o Ho. apply Hopen in Ho. destruct (K9 o Ho) as (b & y & Hfo & Hy & E1 & E2 & E3 & E4). rewrite TF.
      destruct (addr_eqb (ta_client a) (oe_client o)) eqn:E.
      * apply addr_eqb_eq in E. rewrite <- E, Hfa in Hfo. inversion Hfo; subst b.
        exists a', y. repeat split; assumption.
      * exists b, y. repeat split; assumption.
  - split; [exact M|]. unfold k_step. cbn [snd ts_ev ts_acts]. unfold k_state', used'. cbn [ev_cid k_anns flat_map app].
    constructor; cbn [k_now k_users k_perms k_ann k_bound k_gone k_relays k_open]; auto.
    all: try (unfold k_time; lia).
    all: try (intros o Ho; apply K9; apply Hopen; exact Ho).
    all: try (intros b j Hb0 Hj; apply Hgrow; apply (K3 b j Hb0 Hj)).
Qed.

(* ---------- TEnd ---------- *)
Lemma existsb_perm_filter c0 b j l : ta_client b <> c0 ->
  existsb (fun q : addr * N => addr_eqb (fst q) (ta_client b) && (snd q =? j)%N) l = true ->
  existsb (fun q : addr * N => addr_eqb (fst q) (ta_client b) && (snd q =? j)%N) (filter (fun p => negb (addr_eqb (fst p) c0)) l) = true.
Proof.
  intros Hne H. apply existsb_exists in H as (q & Hq & E). apply existsb_exists. exists q. split; [|exact E].
  apply filter_In. split; [exact Hq|]. apply andb_true_iff in E as [E _]. apply addr_eqb_eq in E.
  apply Bool.negb_true_iff. apply addr_eqb_neq. congruence.
Qed.

Lemma end_ok s st used c s' acts :
  MInv s -> KInv s st used -> tstep s (TEnd c) = (s', acts) ->
  fst (k_step st {| ts_ev := TEnd c; ts_acts := acts |}) = true /\ MInv s' /\
  KInv s' (snd (k_step st {| ts_ev := TEnd c; ts_acts := acts |})) (used' (TEnd c) used).
Proof.
  intros M K H. pose proof M as [Hl Hnd Hids Hdl]. pose proof K as [K1 K2 K3 K4 K5 K6 K6b K7 K8 K9].
  assert (Hshape : s' = {| tnow := tnow s; tallocs := tremove c (tallocs s); tlocked := tlocked s |} /\ Forall plain acts /\ Forall nodeliver acts).
  { unfold tstep in H. destruct (tfind c (tallocs s)) as [a|] eqn:Hf; injection H as <- <-.
    - split; [reflexivity|]. split; apply Forall_forall; intros y Hy; apply in_flat_map in Hy as (x & _ & [<-|Hy]); try exact I;
        destruct (tc_data x); [destruct Hy as [<-|[]]; exact I|destruct Hy|destruct Hy as [<-|[]]; exact I|destruct Hy].
    - rewrite (tremove_absent _ _ Hf). destruct s; split; [reflexivity|split; constructor]. }
  destruct Hshape as (-> & Hp & Hnd0).
  destruct (tremove_nodup c _ Hnd) as [N1 N2].
  assert (Hin' : forall b, In b (tremove c (tallocs s)) -> In b (tallocs s) /\ ta_client b <> c).
  { intros b Hb. split; [eapply tremove_in; eauto|]. intros E. apply N2. rewrite <- E at 1. apply in_map. exact Hb. }
  assert (Ht : k_time st (TEnd c) = tnow s) by (unfold k_time; lia).
  assert (Hopen : forall o, In o (k_open' st (tnow s) (TEnd c) acts) -> In o (k_open st) /\ oe_client o <> c).
  { intros o Ho. unfold k_open' in Ho. rewrite (plain_anns _ _ _ Hp) in Ho. cbn [map app] in Ho.
    apply filter_In in Ho as [Ho Hc]. apply filter_In in Ho as [Ho _]. apply filter_In in Ho as [Ho _]. split; [exact Ho|].
    apply Bool.negb_true_iff in Hc. apply addr_eqb_neq in Hc. exact Hc. }
  split; [|split].
  - unfold k_step. cbn [fst ts_ev ts_acts]. rewrite Ht.
    rewrite (plain_noblock _ Hp), (plain_anns _ _ _ Hp), (plain_attempts _ _ Hp), (plain_binds_ok _ _ _ _ Hp), (plain_data _ _ _ Hp Hnd0).
    cbn [k_fresh forallb map nodupb andb k_owner_bind]. apply (deadline_subset s st used _ _ M K eq_refl). intros o Ho. apply Hopen. exact Ho.
  - constructor; cbn [tnow tallocs tlocked].
    + exact Hl.
    + exact N1.
    + intros b1 x b2 y H1 Hx H2 Hy E. apply Hin' in H1 as [H1 _]. apply Hin' in H2 as [H2 _]. apply (Hids b1 x b2 y); assumption.
    + intros b x Hb Hx Hub. apply Hin' in Hb as [Hb _]. eapply Hdl; eauto.
  - unfold k_step. cbn [snd ts_ev ts_acts]. unfold k_state', used'. rewrite Ht, (plain_anns _ _ _ Hp), (plain_binds _ Hp). cbn [ev_cid app].
    constructor; cbn [k_now k_users k_perms k_ann k_bound k_gone k_relays k_open tnow tallocs]; auto.
    + intros c'. rewrite user_get_filter, (tfind_tremove _ _ _ Hnd), K2. destruct (addr_eqb c c'); reflexivity.
    + intros b j Hb Hj. apply Hin' in Hb as [Hb Hne]. apply existsb_perm_filter; [exact Hne|]. apply (K3 b j Hb Hj).
    + intros b y Hb Hy. apply Hin' in Hb as [Hb _]. apply K4; assumption.
    + intros b y Hb Hy. apply Hin' in Hb as [Hb _]. apply (K6b b y Hb Hy).
    + intros c' b Hb. rewrite (tfind_tremove _ _ _ Hnd) in Hb. unfold k_relay_of. cbn [k_relays]. rewrite afind_filter.
      destruct (addr_eqb c c'); [discriminate|]. apply (K8 c' b Hb).
    + intros o Ho. apply Hopen in Ho as [Ho Hne]. destruct (K9 o Ho) as (b & y & Hfo & Hy & E1 & E2 & E3 & E4).
      exists b, y. rewrite (tfind_tremove _ _ _ Hnd). destruct (addr_eqb c (oe_client o)) eqn:E; [apply addr_eqb_eq in E; congruence|].
      repeat split; assumption.
Qed.

(* ---------- TTick ---------- *)
Lemma tfind_map F l c : (forall a, ta_client (F a) = ta_client a) -> tfind c (map F l) = option_map F (tfind c l).
Proof. intros HF. induction l as [|x l IH]; cbn; [reflexivity|]. rewrite HF. destruct (addr_eqb (ta_client x) c); [reflexivity|exact IH]. Qed.

Lemma tick_ok s st used dt s' acts :
  MInv s -> KInv s st used -> tstep s (TTick dt) = (s', acts) ->
  fst (k_step st {| ts_ev := TTick dt; ts_acts := acts |}) = true /\ MInv s' /\
  KInv s' (snd (k_step st {| ts_ev := TTick dt; ts_acts := acts |})) (used' (TTick dt) used).
Proof.
  intros M K H. pose proof M as [Hl Hnd Hids Hdl]. pose proof K as [K1 K2 K3 K4 K5 K6 K6b K7 K8 K9].
  unfold tstep in H. injection H as <- <-.
  set (t := tnow s + Z.max 0 dt). set (expired := fun x : tconn => negb (tc_bound x) && (tc_dl x <=? t)).
  set (F := fun a => set_conns a (filter (fun x => negb (expired x)) (ta_conns a))).
  set (acts := flat_map (fun a => map (fun x => TPeerClosed (ta_relay a) (tc_peer x)) (filter expired (ta_conns a))) (tallocs s)).
  assert (HF : forall a, ta_client (F a) = ta_client a) by reflexivity.
  assert (Hp : Forall plain acts).
  { apply Forall_forall. intros y Hy. apply in_flat_map in Hy as (a & _ & Hy). apply in_map_iff in Hy as (x & <- & _). exact I. }
  assert (Hnd0 : Forall nodeliver acts).
  { apply Forall_forall. intros y Hy. apply in_flat_map in Hy as (a & _ & Hy). apply in_map_iff in Hy as (x & <- & _). exact I. }
  assert (Ht : k_time st (TTick dt) = t) by (unfold k_time, t; rewrite K1; reflexivity).
  assert (Hin' : forall b', In b' (map F (tallocs s)) -> exists b, In b (tallocs s) /\ b' = F b).
  { intros b' Hb. apply in_map_iff in Hb as (b & <- & Hb). eauto. }
  assert (Hsub : forall b y, In y (ta_conns (F b)) -> In y (ta_conns b) /\ expired y = false).
  { intros b y Hy. cbn [F set_conns ta_conns] in Hy. apply filter_In in Hy as [Hy E]. apply Bool.negb_true_iff in E. auto. }
  assert (Hopen : forall o, In o (k_open' st t (TTick dt) acts) -> In o (k_open st) /\ t < oe_t0 o + bind_timeout).
  { intros o Ho. unfold k_open' in Ho. rewrite (plain_anns _ _ _ Hp) in Ho. cbn [map app] in Ho.
    apply filter_In in Ho as [Ho Hc]. apply filter_In in Ho as [Ho _]. split; [exact Ho|].
    destruct (K9 o Ho) as (b & y & Hfo & Hy & E1 & E2 & E3 & E4). rewrite <- E4.
    destruct (Z.ltb_spec t (tc_dl y)) as [Hlt|Hge]; [exact Hlt|exfalso].
    apply Bool.negb_true_iff in Hc. apply Bool.not_true_iff_false in Hc. apply Hc. unfold k_closed_here.
    apply existsb_exists. exists (TPeerClosed (ta_relay b) (tc_peer y)). split.
    - unfold acts. apply in_flat_map. exists b. split; [apply (tfind_some _ _ _ Hfo)|]. apply in_map_iff. exists y. split; [reflexivity|].
      apply filter_In. split; [exact Hy|]. unfold expired. rewrite E3. cbn. apply Z.leb_le. exact Hge.
    - fold (oe_peer o) (oe_client o). rewrite E2, addr_eqb_refl, (K8 _ b Hfo). cbn. apply addr_eqb_refl. }
  split; [|split].
  - unfold k_step. cbn [fst ts_ev ts_acts]. rewrite Ht.
    rewrite (plain_noblock _ Hp), (plain_anns _ _ _ Hp), (plain_attempts _ _ Hp), (plain_binds_ok _ _ _ _ Hp), (plain_data _ _ _ Hp Hnd0).
    cbn [k_fresh forallb map nodupb andb k_owner_bind]. apply forallb_forall. intros o Ho. apply Z.ltb_lt. apply Hopen. exact Ho.
  - constructor; cbn [tnow tallocs tlocked].
    + exact Hl.
    + rewrite map_map. cbn [F set_conns ta_client]. exact Hnd.
    + intros b1 x b2 y H1 Hx H2 Hy E. apply Hin' in H1 as (c1 & H1 & ->). apply Hin' in H2 as (c2 & H2 & ->).
      apply Hsub in Hx as [Hx _]. apply Hsub in Hy as [Hy _]. destruct (Hids c1 x c2 y H1 Hx H2 Hy E) as [-> ->]. split; reflexivity.
    + intros b x Hb Hx Hub. apply Hin' in Hb as (c1 & Hb & ->). apply Hsub in Hx as [Hx Hex]. unfold expired in Hex. rewrite Hub in Hex. cbn in Hex.
      apply Z.leb_gt in Hex. exact Hex.
  - unfold k_step. cbn [snd ts_ev ts_acts]. unfold k_state', used'. rewrite Ht, (plain_anns _ _ _ Hp), (plain_binds _ Hp). cbn [ev_cid app].
    constructor; cbn [k_now k_users k_perms k_ann k_bound k_gone k_relays k_open tnow tallocs]; auto.
    + intros c'. rewrite K2, (tfind_map F _ _ HF). destruct (tfind c' (tallocs s)); reflexivity.
    + intros b j Hb Hj. apply Hin' in Hb as (c1 & Hb & ->). apply (K3 c1 j Hb Hj).
    + intros b y Hb Hy. apply Hin' in Hb as (c1 & Hb & ->). apply Hsub in Hy as [Hy _]. apply (K4 c1 y Hb Hy).
    + intros b y Hb Hy. apply Hin' in Hb as (c1 & Hb & ->). apply Hsub in Hy as [Hy _]. apply (K6b c1 y Hb Hy).
    + intros c' b Hb. rewrite (tfind_map F _ _ HF) in Hb. destruct (tfind c' (tallocs s)) as [b0|] eqn:Hb0; [|discriminate].
      inversion Hb; subst b. exact (K8 c' b0 Hb0).
    + intros o Ho. apply Hopen in Ho as [Ho Hlt]. destruct (K9 o Ho) as (b & y & Hfo & Hy & E1 & E2 & E3 & E4).
      exists (F b), y. rewrite (tfind_map F _ _ HF), Hfo. split; [reflexivity|]. split; [|repeat split; assumption].
      cbn [F set_conns ta_conns]. apply filter_In. split; [exact Hy|]. apply Bool.negb_true_iff. unfold expired. rewrite E3. cbn.
      apply Z.leb_gt. lia.
Qed.

(* ---------- every step ---------- *)
Ltac same_plain_tac M K :=
  eapply (fun Hp He Hd Ho => let '(conj A B) := same_plain _ _ _ _ _ M K Hp He Hd Ho in conj A (conj M B));
  [repeat constructor|exact I|apply plain_data; repeat constructor|try reflexivity].

Lemma beqb_refl' d : beqb d d = true.
Proof. apply beqb_refl. Qed.

Lemma kstep_ok s e s' acts st used : MInv s -> KInv s st used ->
  match ev_cid e with Some k => ~ In k used | None => True end -> tstep s e = (s', acts) ->
  fst (k_step st {| ts_ev := e; ts_acts := acts |}) = true /\ MInv s' /\
  KInv s' (snd (k_step st {| ts_ev := e; ts_acts := acts |})) (used' e used).
Proof.
  intros M K Hfr H. pose proof (m_lock s M) as Hlock. 
  destruct e as [c u r|c i|c|c tid au peer vetoed dial_ok cid|relay p cid|dc tid au cid|cid fromc d|cid cside|dt].
  - eapply alloc_ok; eauto.
  - eapply perm_ok; eauto.
  - eapply end_ok; eauto.
  - (* TConnect *)
    unfold tstep in H. cbn [ev_cid] in Hfr.
    destruct au as [u|]; [|injection H as <- <-; same_plain_tac M K].
    destruct (tfind c (tallocs s)) as [a|] eqn:Hf; [|injection H as <- <-; same_plain_tac M K].
    pose proof (tfind_some _ _ _ Hf) as [Ha Hc].
    destruct (negb (ta_user a =? u)%N); [injection H as <- <-; same_plain_tac M K|].
    destruct peer as [p|]; [|injection H as <- <-; same_plain_tac M K].
    destruct vetoed; [injection H as <- <-; same_plain_tac M K|].
    destruct (port p =? 0)%N; [injection H as <- <-; same_plain_tac M K|].
    rewrite Hlock in H at 1.
    destruct (has_conn_peer p a); [injection H as <- <-; same_plain_tac M K|].
    destruct dial_ok; cbn [negb] in H; [|injection H as <- <-; same_plain_tac M K].
    destruct (has_conn_id cid (tallocs s)) eqn:Hid; [injection H as <- <-; same_plain_tac M K|].
    injection H as <- <-. subst c.
    apply (new_conn s st used _ _ a cid p M K Ha Hfr Hid). left. exists tid, u, false, true. split; reflexivity.
  - (* TPeerConn *)
    unfold tstep in H. cbn [ev_cid] in Hfr.
    destruct (tfind_relay relay (tallocs s)) as [a|] eqn:Hf; [|injection H as <- <-; same_plain_tac M K].
    pose proof (tfind_relay_some _ _ _ Hf) as [Ha Hrl].
    destruct (existsb (N.eqb (ip p)) (ta_perms a)) eqn:Hperm; cbn [negb] in H; [|injection H as <- <-; same_plain_tac M K].
    rewrite Hlock in H at 1.
    destruct (has_conn_id cid (tallocs s)) eqn:Hid; cbn [orb] in H; [injection H as <- <-; same_plain_tac M K|].
    destruct (has_conn_peer p a); [injection H as <- <-; same_plain_tac M K|].
    injection H as <- <-.
    apply (new_conn s st used _ _ a cid p M K Ha Hfr Hid). right. exists relay. repeat split. exact Hperm.
  - (* TConnBind *)
    unfold tstep in H.
    destruct au as [u|]; [|injection H as <- <-; same_plain_tac M K].
    destruct cid as [k|]; [|injection H as <- <-; same_plain_tac M K].
    rewrite Hlock in H at 1.
    destruct (owner_of k (tallocs s)) as [[a x]|] eqn:Ho.
    + pose proof (owner_of_in _ _ _ _ Ho) as (Ha & Hx & Hk).
      destruct (N.eqb_spec (ta_user a) u) as [Eu|Eu]; cbn [negb orb] in H.
      * destruct (tc_bound x) eqn:Hb.
        -- injection H as <- <-. same_plain_tac M K.
           (* the owner tried: but the connection is already bound, so it is not in the open list *)
           unfold k_owner_bind. destruct (find (fun x0 => (fst x0 =? k)%N) (k_open st)) as [o|] eqn:Hfo; [|reflexivity].
           exfalso. apply find_some in Hfo as [Hoin Hok]. apply N.eqb_eq in Hok.
           destruct (k9 _ _ _ K o Hoin) as (b & y & Hfb & Hy & E1 & E2 & E3 & E4).
           pose proof (owner_of_unique s b y M (proj1 (tfind_some _ _ _ Hfb)) Hy) as Hu. unfold oe_cid in E1. rewrite E1, Hok, Ho in Hu.
           inversion Hu; subst. congruence.
        -- injection H as <- <-. apply (bind_ok s st used dc tid u k a x M K Ha Hx Hk Eu Hb).
      * injection H as <- <-. same_plain_tac M K.
        unfold k_owner_bind. destruct (find (fun x0 => (fst x0 =? k)%N) (k_open st)) as [o|] eqn:Hfo; [|reflexivity].
        apply find_some in Hfo as [Hoin Hok]. apply N.eqb_eq in Hok.
        destruct (k9 _ _ _ K o Hoin) as (b & y & Hfb & Hy & E1 & E2 & E3 & E4).
        pose proof (owner_of_unique s b y M (proj1 (tfind_some _ _ _ Hfb)) Hy) as Hu. unfold oe_cid in E1. rewrite E1, Hok, Ho in Hu.
        inversion Hu; subst b y. change (fst (fst (snd o))) with (oe_client o). rewrite (k2 _ _ _ K), Hfb. cbn [option_map opt_eqb].
        destruct (N.eqb_spec (ta_user a) u); [contradiction|reflexivity].
    + injection H as <- <-. same_plain_tac M K.
      unfold k_owner_bind. destruct (find (fun x0 => (fst x0 =? k)%N) (k_open st)) as [o|] eqn:Hfo; [|reflexivity].
      exfalso. apply find_some in Hfo as [Hoin Hok]. apply N.eqb_eq in Hok.
      destruct (k9 _ _ _ K o Hoin) as (b & y & Hfb & Hy & E1 & E2 & E3 & E4).
      apply (owner_of_exists k (tallocs s) b y (proj1 (tfind_some _ _ _ Hfb)) Hy); [unfold oe_cid in E1; congruence|exact Ho].
  - (* TData *)
    unfold tstep in H. destruct (owner_of cid (tallocs s)) as [[a x]|] eqn:Ho; [|injection H as <- <-; same_plain_tac M K].
    pose proof (owner_of_in _ _ _ _ Ho) as (Ha & Hx & Hk).
    destruct (tc_bound x) eqn:Hb; injection H as <- <-; [|same_plain_tac M K].
    eapply (fun Hp He Hd Ho => let '(conj A B) := same_plain _ _ _ _ _ M K Hp He Hd Ho in conj A (conj M B));
      [repeat constructor|exact I| |reflexivity].
    cbn [k_data forallb]. rewrite N.eqb_refl, Bool.eqb_reflx, beqb_refl', Bool.andb_true_r. cbn [andb].
    apply existsb_Neqb. rewrite <- Hk. apply (k6b _ _ _ K a x Ha Hx). exact Hb.
  - (* TCloseSide *)
    unfold tstep in H. destruct (owner_of cid (tallocs s)) as [[a x]|] eqn:Ho; [|injection H as <- <-; same_plain_tac M K].
    pose proof (owner_of_in _ _ _ _ Ho) as (Ha & Hx & Hk).
    destruct (tc_bound x) eqn:Hb; injection H as <- <-; [|same_plain_tac M K].
    apply (close_side_ok s st used cid cside _ a x M K Ha Hx Hk Hb).
    + destruct cside; [repeat constructor|destruct (tc_data x); repeat constructor].
    + destruct cside; [repeat constructor|destruct (tc_data x); repeat constructor].
  - eapply tick_ok; eauto.
Qed.

(* ---------- every history ---------- *)
Lemma holds_model : forall h s st used, MInv s -> KInv s st used -> cids_fresh used h ->
  holds_from st (tmodel_steps s h) = true.
Proof.
  induction h as [|e h IH]; intros s st used M K Hfr; [reflexivity|]. cbn [tmodel_steps].
  destruct (tstep s e) as [s' acts] eqn:Hs. cbn [holds_from].
  assert (Hfr1 : match ev_cid e with Some k => ~ In k used | None => True end).
  { cbn [cids_fresh] in Hfr. destruct (ev_cid e); [apply Hfr|exact I]. }
  assert (Hfr2 : cids_fresh (used' e used) h).
  { cbn [cids_fresh] in Hfr. unfold used'. destruct (ev_cid e); [apply Hfr|exact Hfr]. }
  destruct (kstep_ok s e s' acts st used M K Hfr1 Hs) as (C & M' & K').
  destruct (k_step st {| ts_ev := e; ts_acts := acts |}) as [ok st'] eqn:Hk. cbn [fst snd] in C, K'. subst ok.
  cbn [andb]. eapply IH; eauto.
Qed.

Theorem holds_on_model h : cids_fresh [] h -> holds_from k0 (tmodel_steps tinit h) = true.
Proof. intros Hfr. apply (holds_model h tinit k0 [] minv_init kinv_init Hfr). Qed.

(* ---------- the close clause ---------- *)
Record CInv (s : tstate) (st : cst) : Prop := {
  ci1 : forall a x, In a (tallocs s) -> In x (ta_conns a) -> In (tc_id x, ta_client a) (c_la st);
  ci2 : forall k, In k (c_lb st) -> exists a x, In a (tallocs s) /\ In x (ta_conns a) /\ tc_id x = k /\ tc_bound x = true /\ tc_data x <> None }.

Lemma cinv_init : CInv tinit c0.
Proof. constructor; cbn; [intros ? ? []|intros ? []]. Qed.

Lemma nodup_client_eq l a b : NoDup (map ta_client l) -> In a l -> In b l -> ta_client a = ta_client b -> a = b.
Proof.
  intros Hnd Ha Hb E. pose proof (tfind_in_nodup l a Hnd Ha) as H1. pose proof (tfind_in_nodup l b Hnd Hb) as H2.
  rewrite E in H1. congruence.
Qed.

(* the state does not change and nothing is bound or announced *)
Lemma cinv_same s st la lb : CInv s st -> (forall p, In p (c_la st) -> In p la) -> (forall k, In k lb -> In k (c_lb st)) ->
  CInv s {| c_la := la; c_lb := lb |}.
Proof. intros [C1 C2] Hla Hlb. constructor; cbn; [intros a x Ha Hx; apply Hla; apply C1; assumption|intros k Hk; apply C2; apply Hlb; exact Hk]. Qed.

(* one allocation is replaced by one with the same client, whose connections carry old ids (or announced ones), and in
   which every old bound connection survives as a bound connection with data *)
Lemma cinv_replace s st a a' la lb :
  MInv s -> CInv s st -> In a (tallocs s) -> ta_client a' = ta_client a ->
  (forall p, In p (c_la st) -> In p la) ->
  (forall y, In y (ta_conns a') -> In (tc_id y, ta_client a) la) ->
  (forall k, In k lb -> In k (c_lb st) \/
      exists y, In y (ta_conns a') /\ tc_id y = k /\ tc_bound y = true /\ tc_data y <> None) ->
  (forall x, In x (ta_conns a) -> tc_bound x = true -> tc_data x <> None -> In (tc_id x) lb ->
      exists y, In y (ta_conns a') /\ tc_id y = tc_id x /\ tc_bound y = true /\ tc_data y <> None) ->
  CInv {| tnow := tnow s; tallocs := treplace a' (tallocs s); tlocked := tlocked s |} {| c_la := la; c_lb := lb |}.
Proof.
  intros M [C1 C2] Ha Hc Hla Hnew Hlb Hkeep. pose proof (m_nd s M) as Hnd. constructor; cbn [tallocs c_la c_lb].
  - intros b y Hb Hy. apply (treplace_in_iff a a' _ b Hnd Ha Hc) in Hb as [->|[Hb Hne]].
    + rewrite Hc. apply Hnew. exact Hy.
    + apply Hla. apply C1; assumption.
  - intros k Hk. destruct (Hlb k Hk) as [Hold|(y & Hy & E1 & E2 & E3)].
    + destruct (C2 k Hold) as (a0 & x0 & Ha0 & Hx0 & E1 & E2 & E3).
      destruct (addr_eqb (ta_client a0) (ta_client a)) eqn:Ec.
      * apply addr_eqb_eq in Ec. assert (a0 = a) by (eapply nodup_client_eq; eauto). subst a0.
        destruct (Hkeep x0 Hx0 E2 E3) as (y & Hy & F1 & F2 & F3); [rewrite E1; exact Hk|].
        exists a', y. split; [apply (treplace_in_iff a a' _ a' Hnd Ha Hc); left; reflexivity|]. repeat split; auto. congruence.
      * exists a0, x0. split; [apply (treplace_in_iff a a' _ a0 Hnd Ha Hc); right; split; [exact Ha0|]|auto].
        intros E. rewrite E, addr_eqb_refl in Ec. discriminate.
    + exists a', y. split; [apply (treplace_in_iff a a' _ a' Hnd Ha Hc); left; reflexivity|auto].
Qed.

Ltac csame C := split; [reflexivity|apply (cinv_same _ _ _ _ C); cbn; intros; auto; try (right; assumption)].

Lemma in_filter_sub {A} (f : A -> bool) l x : In x (filter f l) -> In x l.
Proof. intros H. apply filter_In in H. tauto. Qed.

Lemma cstep_ok s e s' acts st : MInv s -> CInv s st -> tstep s e = (s', acts) ->
  fst (c_step st e acts) = true /\ CInv s' (snd (c_step st e acts)).
Proof.
  intros M C H. pose proof (m_lock s M) as Hlock. pose proof (m_nd s M) as Hnd. pose proof C as [C1 C2].
  destruct e as [c u r|c i|c|c tid au peer vetoed dial_ok cid|relay p cid|dc tid au cid|cid fromc d|cid cside|dt].
  - (* TAlloc *)
    unfold tstep in H. destruct (tfind c (tallocs s)) as [a0|]; injection H as <- <-; [csame C|].
    split; [reflexivity|]. constructor; cbn.
    + intros a x Ha Hx. apply in_app_or in Ha as [Ha|[<-|[]]]; [apply C1; assumption|destruct Hx].
    + intros k Hk. destruct (C2 k Hk) as (a & x & Ha & R). exists a, x. split; [apply in_or_app; left; exact Ha|exact R].
  - (* TPerm *)
    unfold tstep in H. destruct (tfind c (tallocs s)) as [a|] eqn:Hf; injection H as <- <-; [|csame C].
    pose proof (tfind_some _ _ _ Hf) as [Ha Hc]. split; [reflexivity|]. cbn [c_step snd c_anns flat_map c_binds app].
    apply (cinv_replace s st a _ _ _ M C Ha); cbn [ta_client ta_conns c_la c_lb].
    + symmetry. exact Hc.
    + auto.
    + intros y Hy. apply C1; assumption.
    + intros k Hk. left. exact Hk.
    + intros x Hx Hb Hd _. exists x. auto.
  - (* TEnd *)
    unfold tstep in H. destruct (tfind c (tallocs s)) as [a|] eqn:Hf; injection H as <- <-.
    + split; [reflexivity|]. constructor; cbn [tallocs c_step snd c_la c_lb].
      * intros b y Hb Hy. apply in_or_app. right. apply C1; [eapply tremove_in; eauto|exact Hy].
      * intros k Hk. apply filter_In in Hk as [Hk Hf']. destruct (C2 k Hk) as (a0 & x0 & Ha0 & Hx0 & E1 & E2 & E3).
        exists a0, x0. split; [|auto]. apply tremove_other; [exact Ha0|]. intros Ec.
        apply Bool.negb_true_iff in Hf'. apply Bool.not_true_iff_false in Hf'. apply Hf'.
        apply existsb_exists. exists (k, c). split; [rewrite <- E1, <- Ec; apply C1; assumption|]. cbn. rewrite N.eqb_refl, addr_eqb_refl. reflexivity.
    + split; [reflexivity|]. apply (cinv_same _ _ _ _ C); cbn; [auto|]. intros k Hk. eapply in_filter_sub; eauto.
  - (* TConnect *)
    unfold tstep in H.
    destruct au as [u|]; [|injection H as <- <-; csame C].
    destruct (tfind c (tallocs s)) as [a|] eqn:Hf; [|injection H as <- <-; csame C].
    pose proof (tfind_some _ _ _ Hf) as [Ha Hc].
    destruct (negb (ta_user a =? u)%N); [injection H as <- <-; csame C|].
    destruct peer as [p|]; [|injection H as <- <-; csame C].
    destruct vetoed; [injection H as <- <-; csame C|].
    destruct (port p =? 0)%N; [injection H as <- <-; csame C|].
    rewrite Hlock in H at 1.
    destruct (has_conn_peer p a); [injection H as <- <-; csame C|].
    destruct dial_ok; cbn [negb] in H; [|injection H as <- <-; csame C].
    destruct (has_conn_id cid (tallocs s)) eqn:Hid; [injection H as <- <-; csame C|].
    injection H as <- <-. subst c. split; [reflexivity|]. cbn [c_step snd c_anns flat_map c_binds app].
    apply (cinv_replace s st a _ _ _ M C Ha); cbn [ta_client set_conns ta_conns c_la c_lb].
    + reflexivity.
    + intros q Hq. right. exact Hq.
    + intros y Hy. apply in_app_or in Hy as [Hy|[<-|[]]]; [right; apply C1; assumption|left; reflexivity].
    + intros k Hk. left. exact Hk.
    + intros x Hx Hb Hd _. exists x. split; [apply in_or_app; left; exact Hx|auto].
  - (* TPeerConn *)
    unfold tstep in H.
    destruct (tfind_relay relay (tallocs s)) as [a|] eqn:Hf; [|injection H as <- <-; csame C].
    pose proof (tfind_relay_some _ _ _ Hf) as [Ha Hrl].
    destruct (existsb (N.eqb (ip p)) (ta_perms a)) eqn:Hperm; cbn [negb] in H; [|injection H as <- <-; csame C].
    rewrite Hlock in H at 1.
    destruct (has_conn_id cid (tallocs s)) eqn:Hid; cbn [orb] in H; [injection H as <- <-; csame C|].
    destruct (has_conn_peer p a); [injection H as <- <-; csame C|].
    injection H as <- <-. split; [reflexivity|]. cbn [c_step snd c_anns flat_map c_binds app].
    apply (cinv_replace s st a _ _ _ M C Ha); cbn [ta_client set_conns ta_conns c_la c_lb].
    + reflexivity.
    + intros q Hq. right. exact Hq.
    + intros y Hy. apply in_app_or in Hy as [Hy|[<-|[]]]; [right; apply C1; assumption|left; reflexivity].
    + intros k Hk. left. exact Hk.
    + intros x Hx Hb Hd _. exists x. split; [apply in_or_app; left; exact Hx|auto].
  - (* TConnBind *)
    unfold tstep in H.
    destruct au as [u|]; [|injection H as <- <-; csame C].
    destruct cid as [k|]; [|injection H as <- <-; csame C].
    rewrite Hlock in H at 1.
    destruct (owner_of k (tallocs s)) as [[a x]|] eqn:Ho; [|injection H as <- <-; csame C].
    pose proof (owner_of_in _ _ _ _ Ho) as (Ha & Hx & Hk).
    destruct (negb (ta_user a =? u)%N || tc_bound x); [injection H as <- <-; csame C|].
    injection H as <- <-. split; [reflexivity|]. cbn [c_step snd c_anns flat_map c_binds app].
    apply (cinv_replace s st a _ _ _ M C Ha); cbn [ta_client set_conns ta_conns c_la c_lb].
    + reflexivity.
    + auto.
    + intros y Hy. apply in_map_iff in Hy as (y0 & <- & Hy0). destruct (N.eqb_spec (tc_id y0) k) as [E|E]; cbn [tc_id].
      * rewrite <- E. apply C1; assumption.
      * apply C1; assumption.
    + intros k' [<-|Hk']; [right|left; exact Hk'].
      eexists. split; [apply in_map_iff; exists x; split; [reflexivity|exact Hx]|]. rewrite Hk, N.eqb_refl. cbn. repeat split; discriminate.
    + intros x0 Hx0 Hb Hd _. eexists. split; [apply in_map_iff; exists x0; split; [reflexivity|exact Hx0]|].
      destruct (N.eqb_spec (tc_id x0) k) as [E|E]; cbn; [repeat split; [congruence|discriminate]|auto].
  - (* TData *)
    unfold tstep in H. destruct (owner_of cid (tallocs s)) as [[a x]|]; [destruct (tc_bound x)|]; injection H as <- <-; csame C.
  - (* TCloseSide *)
    unfold tstep in H. destruct (owner_of cid (tallocs s)) as [[a x]|] eqn:Ho.
    + pose proof (owner_of_in _ _ _ _ Ho) as (Ha & Hx & Hk).
      destruct (tc_bound x) eqn:Hb; injection H as <- <-.
      * split.
        -- cbn [c_step fst]. destruct (existsb (N.eqb cid) (c_lb st)) eqn:Em; [|reflexivity].
           apply existsb_exists in Em as (k & Hk' & E). apply N.eqb_eq in E. subst k.
           destruct (C2 cid Hk') as (a0 & x0 & Ha0 & Hx0 & E1 & E2 & E3).
           pose proof (owner_of_unique s a0 x0 M Ha0 Hx0) as Hu. rewrite E1, Ho in Hu. inversion Hu; subst a0 x0.
           destruct cside; [reflexivity|]. destruct (tc_data x); [reflexivity|contradiction].
        -- assert (Hrep : forall la, (forall q, In q (c_la st) -> In q la) ->
             CInv {| tnow := tnow s; tallocs := treplace (drop_conn cid a) (tallocs s); tlocked := tlocked s |}
                  {| c_la := la; c_lb := filter (fun x0 => negb (x0 =? cid)%N) (c_lb st) |}).
           { intros la Hla. apply (cinv_replace s st a _ _ _ M C Ha); cbn [ta_client drop_conn set_conns ta_conns c_la c_lb].
             ++ reflexivity.
             ++ exact Hla.
             ++ intros y Hy. apply filter_In in Hy as [Hy _]. apply Hla. apply C1; assumption.
             ++ intros k Hk'. left. eapply in_filter_sub; eauto.
             ++ intros x0 Hx0 Hb0 Hd0 Hin. apply filter_In in Hin as [_ Hne]. exists x0. split; [|auto].
                apply filter_In. split; [exact Hx0|exact Hne]. }
           cbn [c_step snd]. apply Hrep. intros q Hq. apply in_or_app. right. exact Hq.
      * split.
        -- cbn [c_step fst]. destruct (existsb (N.eqb cid) (c_lb st)) eqn:Em; [|reflexivity]. exfalso.
           apply existsb_exists in Em as (k & Hk' & E). apply N.eqb_eq in E. subst k.
           destruct (C2 cid Hk') as (a0 & x0 & Ha0 & Hx0 & E1 & E2 & E3).
           pose proof (owner_of_unique s a0 x0 M Ha0 Hx0) as Hu. rewrite E1, Ho in Hu. inversion Hu; subst a0 x0. congruence.
        -- apply (cinv_same _ _ _ _ C); cbn; [auto|]. intros k Hk'. eapply in_filter_sub; eauto.
    + injection H as <- <-. split.
      * cbn [c_step fst]. destruct (existsb (N.eqb cid) (c_lb st)) eqn:Em; [|reflexivity]. exfalso.
        apply existsb_exists in Em as (k & Hk' & E). apply N.eqb_eq in E. subst k.
        destruct (C2 cid Hk') as (a0 & x0 & Ha0 & Hx0 & E1 & E2 & E3).
        apply (owner_of_exists cid (tallocs s) a0 x0 Ha0 Hx0 E1 Ho).
      * apply (cinv_same _ _ _ _ C); cbn; [auto|]. intros k Hk'. eapply in_filter_sub; eauto.
  - (* TTick *)
    unfold tstep in H. injection H as <- <-. split; [reflexivity|].
    cbn [c_step snd]. constructor; cbn [tallocs c_la c_lb].
    + intros b y Hb Hy. apply in_map_iff in Hb as (a0 & <- & Ha0). cbn [ta_conns set_conns] in Hy. apply filter_In in Hy as [Hy _].
      apply in_or_app. right. cbn [ta_client set_conns]. apply C1; assumption.
    + intros k Hk. apply in_app_or in Hk as [Hk|Hk].
      * exfalso. unfold c_binds in Hk. apply in_flat_map in Hk as (t & Ht & Hk). apply in_flat_map in Ht as (a0 & _ & Ht).
        apply in_map_iff in Ht as (y & <- & _). destruct Hk.
      * destruct (C2 k Hk) as (a0 & x0 & Ha0 & Hx0 & E1 & E2 & E3).
        eexists. exists x0. split; [apply in_map_iff; exists a0; split; [reflexivity|exact Ha0]|]. split; [|auto].
        cbn [ta_conns set_conns]. apply filter_In. split; [exact Hx0|]. rewrite E2. reflexivity.
Qed.

Lemma close_model : forall h s kst used st, MInv s -> KInv s kst used -> cids_fresh used h -> CInv s st ->
  close_from st (tmodel_steps s h) = true.
Proof.
  induction h as [|e h IH]; intros s kst used st M K Hfr C; [reflexivity|]. cbn [tmodel_steps].
  destruct (tstep s e) as [s' acts] eqn:Hs. cbn [close_from ts_ev ts_acts].
  assert (Hfr1 : match ev_cid e with Some k => ~ In k used | None => True end).
  { cbn [cids_fresh] in Hfr. destruct (ev_cid e); [apply Hfr|exact I]. }
  assert (Hfr2 : cids_fresh (used' e used) h).
  { cbn [cids_fresh] in Hfr. unfold used'. destruct (ev_cid e); [apply Hfr|exact Hfr]. }
  destruct (kstep_ok s e s' acts kst used M K Hfr1 Hs) as (_ & M' & K').
  destruct (cstep_ok s e s' acts st M C Hs) as [Hok C']. rewrite Hok. cbn [andb]. eapply IH; eauto.
Qed.
Theorem close_on_model h : cids_fresh [] h -> close_from c0 (tmodel_steps tinit h) = true.
Proof. intros Hfr. apply (close_model h tinit k0 [] c0 minv_init kinv_init Hfr cinv_init). Qed.

(* THE THEOREM: for every history of TCP-relay events whose connection ids are fresh, the whole C16 trace predicate
   (dup_from and holds_from) holds on the model's trace and the runner accepts the trace *)
Theorem c16_run_on_model h : cids_fresh [] h -> C16Check.run (tmodel_case h) = (true, true).
Proof.
  intros Hfr. unfold C16Check.run, tmodel_case. cbn [tc_steps].
  destruct (iso_dup_model h tinit [] [] tinit_inv2) as [_ Hd].
  rewrite tagree_model, Hd. fold k0. rewrite (holds_on_model h Hfr), (close_on_model h Hfr). reflexivity.
Qed.

(* ---------- C04's TCP predicate: the bind-ownership clause follows from C16's ---------- *)
Lemma binds_own st t e acts : k_binds st t e acts = true -> own_binds st e acts = true.
Proof.
  unfold k_binds, own_binds. intros H. apply forallb_forall. intros a Ha. rewrite forallb_forall in H. specialize (H a Ha).
  destruct a as [| |dcn btid k| | | | | |]; try reflexivity.
  destruct e as [| | | | |dc etid au ocid| | |]; try exact H.
  destruct ocid as [k'|]; [|discriminate].
  apply andb_true_iff in H as [_ H]. destruct (ann_get k (k_ann st)) as [[c t0]|]; [|discriminate].
  apply andb_true_iff in H as [_ H]. exact H.
Qed.

Lemma own_model : forall h s st used, MInv s -> KInv s st used -> cids_fresh used h -> own_from st (tmodel_steps s h) = true.
Proof.
  induction h as [|e h IH]; intros s st used M K Hfr; [reflexivity|]. cbn [tmodel_steps].
  destruct (tstep s e) as [s' acts] eqn:Hs. cbn [own_from ts_ev ts_acts].
  assert (Hfr1 : match ev_cid e with Some k => ~ In k used | None => True end).
  { cbn [cids_fresh] in Hfr. destruct (ev_cid e); [apply Hfr|exact I]. }
  assert (Hfr2 : cids_fresh (used' e used) h).
  { cbn [cids_fresh] in Hfr. unfold used'. destruct (ev_cid e); [apply Hfr|exact Hfr]. }
  destruct (kstep_ok s e s' acts st used M K Hfr1 Hs) as (C & M' & K').
  unfold k_step in C. cbn [fst ts_ev ts_acts] in C.
  repeat (apply andb_true_iff in C as [C ?]).
  match goal with Hb : k_binds _ _ _ _ = true |- _ => rewrite (binds_own _ _ _ _ Hb) end.
  cbn [andb]. eapply IH; eauto.
Qed.

(* THE THEOREM for C04's RFC 6062 part: for every history of TCP-relay events whose connection ids are fresh the isolation
   predicate holds on the model's trace, and the runner accepts that trace *)
Theorem tcp_isolation_on_model h : cids_fresh [] h -> C04TcpCheck.run (tmodel_case h) = (true, true).
Proof.
  intros Hfr. unfold C04TcpCheck.run, tmodel_case, iso_holds. cbn [tc_steps].
  destruct (iso_dup_model h tinit [] [] tinit_inv2) as [H1 H2]. rewrite tagree_model, H1, H2.
  change k_empty with k0. rewrite (own_model h tinit k0 [] minv_init kinv_init Hfr). reflexivity.
Qed.

(* ---------- C03's TCP predicate: conjuncts of C16's ---------- *)
From Turn Require Import C03TcpCheck.
Lemma auth_model : forall h s st used, MInv s -> KInv s st used -> cids_fresh used h -> auth_from st (tmodel_steps s h) = true.
Proof.
  induction h as [|e h IH]; intros s st used M K Hfr; [reflexivity|]. cbn [tmodel_steps].
  destruct (tstep s e) as [s' acts] eqn:Hs. cbn [auth_from ts_ev ts_acts].
  assert (Hfr1 : match ev_cid e with Some k => ~ In k used | None => True end).
  { cbn [cids_fresh] in Hfr. destruct (ev_cid e); [apply Hfr|exact I]. }
  assert (Hfr2 : cids_fresh (used' e used) h).
  { cbn [cids_fresh] in Hfr. unfold used'. destruct (ev_cid e); [apply Hfr|exact Hfr]. }
  destruct (kstep_ok s e s' acts st used M K Hfr1 Hs) as (C & M' & K').
  unfold k_step in C. cbn [fst ts_ev ts_acts] in C.
  repeat (apply andb_true_iff in C as [C ?]).
  match goal with Hb : k_binds _ _ _ _ = true |- _ => rewrite (binds_own _ _ _ _ Hb), Hb end.
  match goal with Hb : k_owner_bind _ _ _ _ = true |- _ => rewrite Hb end.
  cbn [andb]. eapply IH; eauto.
Qed.
Theorem c03_tcp_on_model h : cids_fresh [] h -> C03TcpCheck.run (tmodel_case h) = (true, true).
Proof.
  intros Hfr. unfold C03TcpCheck.run, tmodel_case. cbn [tc_steps]. rewrite tagree_model.
  change k_empty with k0. rewrite (auth_model h tinit k0 [] minv_init kinv_init Hfr). reflexivity.
Qed.

(* ---------- C09's TCP predicate: the manager never wedges ---------- *)
From Turn Require Import C09TcpCheck.
Lemma live_model : forall h s st used, MInv s -> KInv s st used -> cids_fresh used h -> live_from (tmodel_steps s h) = true.
Proof.
  induction h as [|e h IH]; intros s st used M K Hfr; [reflexivity|]. cbn [tmodel_steps].
  destruct (tstep s e) as [s' acts] eqn:Hs. unfold live_from. cbn [forallb ts_acts].
  assert (Hfr1 : match ev_cid e with Some k => ~ In k used | None => True end).
  { cbn [cids_fresh] in Hfr. destruct (ev_cid e); [apply Hfr|exact I]. }
  assert (Hfr2 : cids_fresh (used' e used) h).
  { cbn [cids_fresh] in Hfr. unfold used'. destruct (ev_cid e); [apply Hfr|exact Hfr]. }
  destruct (kstep_ok s e s' acts st used M K Hfr1 Hs) as (C & M' & K').
  unfold k_step in C. cbn [fst ts_ev ts_acts] in C.
  repeat (apply andb_true_iff in C as [C ?]). rewrite C. cbn [andb].
  fold (live_from (tmodel_steps s' h)). eapply IH; eauto.
Qed.
Theorem c09_tcp_on_model h : cids_fresh [] h -> C09TcpCheck.run (tmodel_case h) = (true, true).
Proof.
  intros Hfr. unfold C09TcpCheck.run, tmodel_case. cbn [tc_steps]. rewrite tagree_model.
  rewrite (live_model h tinit k0 [] minv_init kinv_init Hfr). reflexivity.
Qed.
