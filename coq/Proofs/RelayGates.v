(* Step-level theorems about Model/Relay.v: who may emit what, to whom, and what a step may change. *)
From Turn Require Import Bytes ChanData Relay RelayBase RelayInv.
From Coq Require Import ZifyN ZifyNat ZifyBool.
Open Scope Z_scope.

Definition is_life (a : action) : Prop := match a with Life _ => True | _ => False end.

Lemma add_perm_life a i dl a' ev : add_perm a i dl = (a', ev) -> Forall is_life ev.
Proof. unfold add_perm. intros H; inversion H; subst. destruct (find_perm i (a_perms a)); repeat constructor. Qed.

Lemma install_perms_life dl peers : forall a a' ev, install_perms a dl peers = (a', ev) -> Forall is_life ev.
Proof.
  induction peers as [|q peers IH]; cbn [install_perms]; intros a a' ev H.
  - inversion H; constructor.
  - destruct q as [q|]; [|eauto].
    destruct (add_perm a (ip q) dl) as [a1 e1] eqn:H1. destruct (install_perms a1 dl peers) as [a2 e2] eqn:H2.
    inversion H; subst. apply Forall_app. split; [eapply add_perm_life; eauto|eauto].
Qed.

Lemma close_events_life a : Forall is_life (close_events a).
Proof.
  unfold close_events. apply Forall_app. split; [|apply Forall_app; split]; [| |repeat constructor];
    apply Forall_forall; intros x Hx; apply in_map_iff in Hx as (? & <- & _); exact I.
Qed.

Lemma tick_alloc_life t a oa ev : tick_alloc t a = (oa, ev) -> Forall is_life ev.
Proof.
  unfold tick_alloc. destruct (a_dl a <=? t); intros H; inversion H; subst; [apply close_events_life|].
  apply Forall_app; split; apply Forall_forall; intros x Hx; apply in_map_iff in Hx as (? & <- & _); exact I.
Qed.

Lemma tick_allocs_life t l : forall l' ev, tick_allocs t l = (l', ev) -> Forall is_life ev.
Proof.
  induction l as [|a l IH]; cbn [tick_allocs]; intros l' ev H; [inversion H; constructor|].
  destruct (tick_alloc t a) as [oa e1] eqn:H1. destruct (tick_allocs t l) as [r e2] eqn:H2. inversion H; subst.
  apply Forall_app; split; [eapply tick_alloc_life; eauto|eauto].
Qed.

(* a request's answers: to its source, with its transaction id and method; everything else is a lifecycle event *)
Definition reply_to (src : addr) (m : method) (tid : N) (a : action) : Prop :=
  match a with
  | Success d m' t _ => d = src /\ m' = m /\ t = tid
  | Error d m' t _ _ => d = src /\ m' = m /\ t = tid
  | Life _ => True
  | _ => False
  end.

Lemma reply_life src m tid a : is_life a -> reply_to src m tid a.
Proof. destruct a; cbn; tauto. Qed.

Lemma Forall_reply_life src m tid l : Forall is_life l -> Forall (reply_to src m tid) l.
Proof. intros H. eapply Forall_impl; [|exact H]. intros a. apply reply_life. Qed.

Ltac solve_reply :=
  repeat first
    [ apply Forall_reply_life; first [ eassumption | apply close_events_life ]
    | apply Forall_nil
    | apply Forall_cons; [cbn; auto|]
    | apply Forall_app; split ].

Lemma h_allocate_reply cfg s src tid uid realm tr lt fam df rp ep rt mt s' acts :
  h_allocate cfg s src tid uid realm tr lt fam df rp ep rt mt = (s', acts) -> Forall (reply_to src MAllocate tid) acts.
Proof.
  unfold h_allocate. intros H.
  repeat (dmatch H; try (inversion H; subst; solve_reply; fail)).
  all: inversion H; subst; solve_reply.
Qed.

Lemma h_refresh_reply cfg s src tid uid lt fam s' acts :
  h_refresh cfg s src tid uid lt fam = (s', acts) -> Forall (reply_to src MRefresh tid) acts.
Proof.
  unfold h_refresh. intros H. cbv zeta in H.
  repeat (dmatch H; try (inversion H; subst; solve_reply; fail)).
  all: try (inversion H; subst; solve_reply; fail).
Qed.

Lemma h_create_perm_reply cfg s src tid uid peers s' acts :
  h_create_perm cfg s src tid uid peers = (s', acts) -> Forall (reply_to src MCreatePerm tid) acts.
Proof.
  unfold h_create_perm. intros H.
  destruct (owned_alloc s src uid) as [a|]; [|inversion H; subst; solve_reply].
  destruct (perm_check cfg a peers); [inversion H; subst; solve_reply|].
  destruct peers as [|q peers]; [inversion H; subst; solve_reply|].
  destruct (install_perms a _ (q :: peers)) as [a' evs] eqn:Hi. inversion H; subst.
  apply install_perms_life in Hi. solve_reply.
Qed.

Lemma h_channel_bind_reply cfg s src tid uid num peer s' acts :
  h_channel_bind cfg s src tid uid num peer = (s', acts) -> Forall (reply_to src MChannelBind tid) acts.
Proof.
  unfold h_channel_bind. intros H.
  repeat (dmatch H; try (inversion H; subst; solve_reply; fail)).
  all: inversion H; subst;
    match goal with Ha : add_perm _ _ _ = (_, _) |- _ => apply add_perm_life in Ha end; solve_reply.
Qed.

(* C19 correlation / C04 output locality for requests *)
Theorem req_reply cfg s src tid c r unk s' acts :
  step cfg s (EReq src tid c r unk) = (s', acts) -> Forall (reply_to src (req_method r) tid) acts.
Proof.
  cbn [step]. intros H. destruct unk; [inversion H; subst; solve_reply|].
  destruct r as [tr lt fam df rp|lt fam|peers|n p|]; try (inversion H; subst; solve_reply; fail);
    destruct (authenticate cfg s c) as [uid|code ch]; try (inversion H; subst; solve_reply; fail); cbn [req_method].
  - eapply h_allocate_reply; eauto.
  - eapply h_refresh_reply; eauto.
  - eapply h_create_perm_reply; eauto.
  - eapply h_channel_bind_reply; eauto.
Qed.

(* ---------- C01: the send gate ---------- *)
Theorem h_send_spec cfg s src peer data s' acts :
  h_send cfg s src peer data = (s', acts) ->
  s' = s /\
  (acts = [] \/
   exists a p d pm, acts = [ToPeer (a_relay a) p d] /\ peer = Some (PeerOk p) /\ data = Some d /\
     find_alloc src (allocs s) = Some a /\ find_perm (ip p) (a_perms a) = Some pm /\
     a_proto a = 17%N /\ (send_wire_len p d < cfg_mtu cfg)%N).
Proof.
  unfold h_send. intros H.
  destruct (find_alloc src (allocs s)) as [a|] eqn:Hf; [|inversion H; auto].
  destruct data as [d|]; [|inversion H; auto].
  destruct peer as [[p|]|]; try (inversion H; auto; fail).
  destruct (N.leb_spec (cfg_mtu cfg) (send_wire_len p d)); [inversion H; auto|].
  destruct (find_perm (ip p) (a_perms a)) as [pm|] eqn:Hp; [|inversion H; auto].
  destruct (N.eqb_spec (a_proto a) 17); inversion H; subst; split; auto.
  right. exists a, p, d, pm. auto 10.
Qed.

Theorem h_chandata_spec cfg s src n d s' acts :
  h_chandata cfg s src n d = (s', acts) ->
  s' = s /\
  (acts = [] \/
   exists a c, acts = [ToPeer (a_relay a) (c_peer c) d] /\
     find_alloc src (allocs s) = Some a /\ find_chan_num n (a_chans a) = Some c /\
     a_proto a = 17%N /\ (chandata_wire_len d < cfg_mtu cfg)%N).
Proof.
  unfold h_chandata. intros H.
  destruct (N.leb_spec (cfg_mtu cfg) (chandata_wire_len d)); [inversion H; auto|].
  destruct (find_alloc src (allocs s)) as [a|] eqn:Hf; [|inversion H; auto].
  destruct (find_chan_num n (a_chans a)) as [c|] eqn:Hc; [|inversion H; auto].
  destruct (N.eqb_spec (a_proto a) 17); inversion H; subst; split; auto.
  right. exists a, c. auto 10.
Qed.

(* no other event ever emits toward a peer *)
Lemma no_topeer_in_life l r d x : Forall is_life l -> ~ In (ToPeer r d x) l.
Proof. intros H Hin. rewrite Forall_forall in H. apply H in Hin. exact Hin. Qed.

(* the three ways an allocation is ended from outside announce lifecycle events only *)
Lemma close_all_life l : Forall is_life (flat_map close_events l).
Proof. induction l as [|a l IH]; cbn [flat_map]; [constructor|]. apply Forall_app. split; [apply close_events_life|exact IH]. Qed.
Lemma h_ctl_close_life s src s' acts : h_ctl_close s src = (s', acts) -> Forall is_life acts.
Proof. unfold h_ctl_close. destruct (find_alloc src (allocs s)); intros H; inversion H; subst; [apply close_events_life|constructor]. Qed.
Lemma h_srv_close_life s s' acts : h_srv_close s = (s', acts) -> Forall is_life acts.
Proof. unfold h_srv_close. intros H; inversion H; subst. apply close_all_life. Qed.


Lemma no_topeer_in_reply src m tid l r d x : Forall (reply_to src m tid) l -> ~ In (ToPeer r d x) l.
Proof. intros H Hin. rewrite Forall_forall in H. apply H in Hin. exact Hin. Qed.

Theorem h_peer_spec s relay from d s' acts :
  h_peer s relay from d = (s', acts) ->
  s' = s /\
  (acts = [] \/
   exists a, find_relay relay (allocs s) = Some a /\ a_proto a = 17%N /\ (lenN d <= rtp_mtu)%N /\
     ((exists c, find_chan_peer from (a_chans a) = Some c /\ acts = [ChanDataOut (a_client a) (c_num c) d]) \/
      (find_chan_peer from (a_chans a) = None /\ exists pm, find_perm (ip from) (a_perms a) = Some pm /\
         acts = [DataInd (a_client a) from d]))).
Proof.
  unfold h_peer. intros H.
  destruct (find_relay relay (allocs s)) as [a|] eqn:Hf; [|inversion H; auto].
  destruct (N.eqb_spec (a_proto a) 17); cbn [negb] in H; [|inversion H; auto].
  destruct (N.ltb_spec rtp_mtu (lenN d)); [inversion H; auto|].
  destruct (find_chan_peer from (a_chans a)) as [c|] eqn:Hc.
  - inversion H; subst. split; auto. right. exists a. repeat split; auto. left. eauto.
  - destruct (find_perm (ip from) (a_perms a)) as [pm|] eqn:Hp; inversion H; subst; split; auto.
    right. exists a. repeat split; auto. right. eauto.
Qed.

Theorem topeer_only_from_send_or_chandata cfg s e s' acts r d x :
  step cfg s e = (s', acts) -> In (ToPeer r d x) acts ->
  (exists src p dat, e = ESend src p dat) \/ (exists src n dat, e = EChanData src n dat).
Proof.
  intros H Hin. destruct e as [src tid c rq unk|src p dat|src n dat|relay from dat|dt|relay|csrc| |]; eauto; exfalso.
  - apply req_reply in H. eapply no_topeer_in_reply; eauto.
  - cbn [step] in H. apply h_peer_spec in H as [_ [->|(a & _ & _ & _ & [(c & _ & ->)|(_ & pm & _ & ->)])]];
      cbn in Hin; intuition discriminate.
  - cbn [step] in H. unfold h_tick in H. destruct (tick_allocs _ _) as [l evs] eqn:Ht. inversion H; subst.
    apply tick_allocs_life in Ht. eapply no_topeer_in_life; eauto.
  - cbn [step] in H. unfold h_relay_err in H. destruct (find_relay relay (allocs s)); inversion H; subst;
      [eapply no_topeer_in_life; [apply close_events_life|eauto]|destruct Hin].
  - cbn [step] in H. apply h_ctl_close_life in H. eapply no_topeer_in_life; eauto.
  - cbn [step] in H. apply h_srv_close_life in H. eapply no_topeer_in_life; eauto.
  - cbn [step] in H. inversion H; subst. destruct Hin.
Qed.

(* ---------- C02: who receives because of a datagram at a relayed address ---------- *)
Theorem to_client_data_only_from_peer cfg s e s' acts :
  step cfg s e = (s', acts) ->
  (exists dst p d, In (DataInd dst p d) acts) \/ (exists dst n d, In (ChanDataOut dst n d) acts) ->
  exists relay from d, e = EPeer relay from d.
Proof.
  intros H Hin. destruct e as [src tid c rq unk|src p dat|src n dat|relay from dat|dt|relay|csrc| |]; eauto; exfalso.
  - apply req_reply in H. rewrite Forall_forall in H.
    destruct Hin as [(dst & p & d & Hin)|(dst & n & d & Hin)]; apply H in Hin; exact Hin.
  - cbn [step] in H. apply h_send_spec in H as [_ [->|(a & q & d & pm & -> & _)]];
      destruct Hin as [(? & ? & ? & Hin)|(? & ? & ? & Hin)]; cbn in Hin; intuition discriminate.
  - cbn [step] in H. apply h_chandata_spec in H as [_ [->|(a & c & -> & _)]];
      destruct Hin as [(? & ? & ? & Hin)|(? & ? & ? & Hin)]; cbn in Hin; intuition discriminate.
  - cbn [step] in H. unfold h_tick in H. destruct (tick_allocs _ _) as [l evs] eqn:Ht. inversion H; subst.
    apply tick_allocs_life in Ht. rewrite Forall_forall in Ht.
    destruct Hin as [(? & ? & ? & Hin)|(? & ? & ? & Hin)]; apply Ht in Hin; exact Hin.
  - cbn [step] in H. unfold h_relay_err in H. pose proof (close_events_life) as Hl.
    destruct (find_relay relay (allocs s)) as [a|]; inversion H; subst.
    + specialize (Hl a). rewrite Forall_forall in Hl.
      destruct Hin as [(? & ? & ? & Hin)|(? & ? & ? & Hin)]; apply Hl in Hin; exact Hin.
    + destruct Hin as [(? & ? & ? & [])|(? & ? & ? & [])].
  - cbn [step] in H. apply h_ctl_close_life in H. rewrite Forall_forall in H.
    destruct Hin as [(? & ? & ? & Hin)|(? & ? & ? & Hin)]; apply H in Hin; exact Hin.
  - cbn [step] in H. apply h_srv_close_life in H. rewrite Forall_forall in H.
    destruct Hin as [(? & ? & ? & Hin)|(? & ? & ? & Hin)]; apply H in Hin; exact Hin.
  - cbn [step] in H. inversion H; subst. destruct Hin as [(? & ? & ? & [])|(? & ? & ? & [])].
Qed.

(* ---------- C03: a request that does not authenticate changes nothing ---------- *)
Theorem unauthenticated_is_noop cfg s src tid c r s' acts :
  r <> RqBinding ->
  (forall u, authenticate cfg s c <> AuthOK u) ->
  step cfg s (EReq src tid c r false) = (s', acts) ->
  s' = s /\ exists code ch, acts = [Error src (req_method r) tid code ch] /\
     authenticate cfg s c = AuthReply code ch.
Proof.
  intros Hr Hna H. cbn [step] in H.
  destruct (authenticate cfg s c) as [u|code ch] eqn:Ha; [exfalso; eapply Hna; eauto|].
  destruct r; try congruence; inversion H; subst; eauto.
Qed.

(* what an accepted credential implies *)
Theorem auth_ok_sound cfg s c uid :
  authenticate cfg s c = AuthOK uid ->
  cfg_has_auth cfg = true /\
  exists key u r m, c_mi c = Some key /\ c_intact c = true /\ c_user c = Some u /\ c_realm c = Some r /\
    cfg_auth cfg u r = Some (uid, key) /\
    c_nonce c = NonceMinted m /\ m <= cur_minute s /\ cur_minute s - m <= 60.
Proof.
  unfold authenticate. intros H.
  destruct (c_mi c) as [k|] eqn:Hmi; [|discriminate].
  destruct (cfg_has_auth cfg) eqn:Hh; cbn [negb] in H; [|discriminate].
  destruct (c_nonce c) as [|m|] eqn:Hn; try discriminate.
  destruct (nonce_valid s (NonceMinted m)) eqn:Hv; cbn [negb] in H; [|discriminate].
    destruct (c_realm c) as [r|]; [|discriminate]. destruct (c_user c) as [u|]; [|discriminate].
    destruct (cfg_auth cfg u r) as [[uid' key]|] eqn:Hau; [|discriminate].
    destruct (N.eqb_spec k key); cbn [andb] in H; [|discriminate].
    destruct (c_intact c) eqn:Hi; [|discriminate]. inversion H; subst.
    split; [reflexivity|]. exists key, u, r, m. cbn in Hv. repeat split; auto; lia.
Qed.

(* the user check of every method but Allocate *)
Theorem not_owner_is_noop cfg s src tid c r uid s' acts :
  authenticate cfg s c = AuthOK uid ->
  (forall a, find_alloc src (allocs s) = Some a -> a_user a <> uid) ->
  match r with RqAllocate _ _ _ _ _ _ _ _ | RqBinding => False | _ => True end ->
  step cfg s (EReq src tid c r false) = (s', acts) -> s' = s /\ acts = [].
Proof.
  intros Ha Hown Hr H. cbn [step] in H. rewrite Ha in H.
  assert (Ho : owned_alloc s src uid = None).
  { unfold owned_alloc. destruct (find_alloc src (allocs s)) as [a|] eqn:Hf; [|reflexivity].
    destruct (N.eqb_spec (a_user a) uid); [exfalso; eapply Hown; eauto|reflexivity]. }
  destruct r; try contradiction.
  - unfold h_refresh in H. rewrite Ho in H. inversion H; auto.
  - unfold h_create_perm in H. rewrite Ho in H. inversion H; auto.
  - unfold h_channel_bind in H. rewrite Ho in H. inversion H; auto.
Qed.
