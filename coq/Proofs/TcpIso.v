(* C04 on the TCP-relay model: the isolation predicate the correspondence check evaluates on every observed trace
   of the RFC 6062 part of the server (Check/C04TcpCheck.v: Connect answers go to the sender only,
   ConnectionAttempt goes to the owner of the relayed address, teardown closes the allocation's own peer
   connections only, 446 is justified by this allocation's own connections only) holds on EVERY trace of
   Model/TcpRelay.v, for every history of events. *)
From Turn Require Import Bytes Relay RelayBase TcpRelay TcpBase Common RelayCheck RelayProps C16Check C04TcpCheck.
From Coq Require Import ZifyN ZifyNat ZifyBool.
Open Scope Z_scope.

Fixpoint tmodel_steps (s : tstate) (h : list tevent) : list tstep_obs :=
  match h with
  | [] => []
  | e :: r => let '(s', a) := tstep s e in {| ts_ev := e; ts_acts := a |} :: tmodel_steps s' r
  end.
Definition tmodel_case (h : list tevent) : C16Check.case := {| tc_steps := tmodel_steps tinit h |}.

Definition proj (a : talloc) : addr * addr := (ta_client a, ta_relay a).
Definition pairs (l : list talloc) : list (addr * addr) :=
  flat_map (fun a => map (fun x => (ta_client a, tc_peer x)) (ta_conns a)) l.
Definition has (q : addr * addr) (cp : list (addr * addr)) : bool :=
  existsb (fun e => addr_eqb (fst e) (fst q) && addr_eqb (snd e) (snd q)) cp.

(* the bookkeeping of dup_from, named *)
Definition newp (e : tevent) (acts : list taction) : list (addr * addr) :=
  flat_map (fun a => match a, e with
                     | TSuccess _ MConnect _ (Some _), TConnect c _ _ (Some pr) _ _ _ => [(c, pr)]
                     | TAttempt c p _, _ => [(c, p)]
                     | _, _ => [] end) acts.
Definition cpf (e : tevent) (cp : list (addr * addr)) : list (addr * addr) :=
  match e with TEnd c => filter (fun e => negb (addr_eqb (fst e) c)) cp | _ => cp end.
Definition dup_ok (cp : list (addr * addr)) (e : tevent) (acts : list taction) : bool :=
  forallb (fun a => match a, e with
                    | TError _ MConnect _ 446%N, TConnect c _ _ (Some pr) _ _ _ =>
                        existsb (fun e => addr_eqb (fst e) c && addr_eqb (snd e) pr) cp
                    | _, _ => true end) acts.
Lemma dup_from_cons cp o r :
  dup_from cp (o :: r) = dup_ok cp (ts_ev o) (ts_acts o) && dup_from (newp (ts_ev o) (ts_acts o) ++ cpf (ts_ev o) cp) r.
Proof. reflexivity. Qed.


(* ---------- lists of allocations ---------- *)

Lemma rfind_client_map c l : rfind_client c (map proj l) = option_map ta_relay (tfind c l).
Proof. induction l as [|x l IH]; cbn; [reflexivity|]. destruct (addr_eqb (ta_client x) c); [reflexivity|exact IH]. Qed.
Lemma rfind_relay_map r l : rfind_relay r (map proj l) = option_map ta_client (tfind_relay r l).
Proof. induction l as [|x l IH]; cbn; [reflexivity|]. destruct (addr_eqb (ta_relay x) r); [reflexivity|exact IH]. Qed.
Lemma rremove_map c l : rremove c (map proj l) = map proj (tremove c l).
Proof. induction l as [|x l IH]; cbn; [reflexivity|]. destruct (addr_eqb (ta_client x) c); [reflexivity|]. cbn. rewrite IH. reflexivity. Qed.

Lemma treplace_proj a a' l : NoDup (map ta_client l) -> In a l -> proj a' = proj a -> map proj (treplace a' l) = map proj l.
Proof.
  intros Hnd Hin Hp. assert (Hc : ta_client a' = ta_client a) by (unfold proj in Hp; inversion Hp; reflexivity).
  induction l as [|x l IH]; [destruct Hin|]. cbn [treplace map]. inversion Hnd as [|? ? Hx Hl]; subst. rewrite Hc.
  destruct (addr_eqb (ta_client x) (ta_client a)) eqn:E.
  - apply addr_eqb_eq in E. destruct Hin as [->|Hin]; [cbn; rewrite Hp; reflexivity|].
    exfalso. apply Hx. rewrite E. apply in_map. exact Hin.
  - destruct Hin as [->|Hin]; [rewrite addr_eqb_refl in E; discriminate|]. cbn. rewrite (IH Hl Hin). reflexivity.
Qed.

Lemma in_pairs q l : In q (pairs l) <-> exists a x, In a l /\ In x (ta_conns a) /\ q = (ta_client a, tc_peer x).
Proof. unfold pairs. rewrite in_flat_map. split.
  - intros (a & Ha & Hq). apply in_map_iff in Hq as (x & <- & Hx). eauto.
  - intros (a & x & Ha & Hx & ->). exists a. split; [exact Ha|]. apply in_map_iff. eauto. Qed.

Lemma has_in q cp : In q cp -> has q cp = true.
Proof. intros H. unfold has. apply existsb_exists. exists q. split; [exact H|]. rewrite !addr_eqb_refl. reflexivity. Qed.
Lemma has_app q a b : has q (a ++ b) = has q a || has q b.
Proof. unfold has. apply existsb_app. Qed.
Lemma has_filter q c cp : fst q <> c -> has q (filter (fun e => negb (addr_eqb (fst e) c)) cp) = has q cp.
Proof.
  intros Hne. unfold has. induction cp as [|e cp IH]; cbn; [reflexivity|].
  destruct (addr_eqb (fst e) c) eqn:E; cbn; rewrite IH; [|reflexivity].
  apply addr_eqb_eq in E. destruct (addr_eqb (fst e) (fst q)) eqn:E2; [|reflexivity].
  apply addr_eqb_eq in E2. congruence.
Qed.

(* ---------- the invariant ---------- *)
Record Inv2 (s : tstate) (relays cp : list (addr * addr)) : Prop := {
  i_rel : relays = map proj (tallocs s);
  i_nd : NoDup (map ta_client (tallocs s));
  i_cp : forall q, In q (pairs (tallocs s)) -> has q cp = true }.

(* replacing an allocation by one with the same identity whose connections are old ones or announced ones *)
Lemma inv2_replace s relays cp a a' e acts tn lk :
  Inv2 s relays cp -> In a (tallocs s) -> proj a' = proj a ->
  (forall x, In x (ta_conns a') -> (exists y, In y (ta_conns a) /\ tc_peer y = tc_peer x) \/ In (ta_client a, tc_peer x) (newp e acts)) ->
  match e with TEnd _ | TAlloc _ _ _ => False | _ => True end ->
  Inv2 {| tnow := tn; tallocs := treplace a' (tallocs s); tlocked := lk |} (relays_step relays e) (newp e acts ++ cpf e cp).
Proof.
  intros [Hr Hnd Hcp] Ha Hp Hcs He.
  assert (Hc : ta_client a' = ta_client a) by (unfold proj in Hp; inversion Hp; reflexivity).
  assert (E1 : relays_step relays e = relays) by (destruct e; try reflexivity; contradiction).
  assert (E2 : cpf e cp = cp) by (destruct e; try reflexivity; contradiction).
  rewrite E1, E2. constructor; cbn [tallocs].
  - rewrite Hr. symmetry. apply (treplace_proj a); auto.
  - rewrite treplace_clients. exact Hnd.
  - intros q Hq. rewrite has_app. apply in_pairs in Hq as (b & x & Hb & Hx & ->).
    apply treplace_in in Hb as [->|Hb].
    + rewrite Hc. destruct (Hcs x Hx) as [(y & Hy & Hpe)|Hn].
      * rewrite <- Hpe. rewrite (Hcp (ta_client a, tc_peer y)); [apply orb_true_r|]. apply in_pairs. eauto.
      * rewrite (has_in _ _ Hn). reflexivity.
    + rewrite (Hcp (ta_client b, tc_peer x)); [apply orb_true_r|]. apply in_pairs. eauto.
Qed.

Lemma inv2_same s relays cp e acts :
  Inv2 s relays cp -> match e with TEnd _ | TAlloc _ _ _ => False | _ => True end ->
  Inv2 s (relays_step relays e) (newp e acts ++ cpf e cp).
Proof.
  intros [Hr Hnd Hcp] He.
  assert (E1 : relays_step relays e = relays) by (destruct e; try reflexivity; contradiction).
  assert (E2 : cpf e cp = cp) by (destruct e; try reflexivity; contradiction).
  rewrite E1, E2. constructor; auto. intros q Hq. rewrite has_app, (Hcp q Hq). apply orb_true_r.
Qed.

Lemma rremove_absent c l : rfind_client c l = None -> rremove c l = l.
Proof. induction l as [|p l IH]; cbn; [reflexivity|]. destruct (addr_eqb (fst p) c); [discriminate|]. intros H. rewrite IH; auto. Qed.

Definition quiet (a : taction) : Prop :=
  match a with TSuccess _ _ _ _ | TError _ _ _ _ | TAttempt _ _ _ => False | _ => True end.
Lemma quiet_newp e acts : Forall quiet acts -> newp e acts = [].
Proof. induction 1 as [|a l Ha Hl IH]; [reflexivity|]. cbn [newp flat_map]. fold (newp e l). rewrite IH.
  destruct a; cbn in Ha; try contradiction; reflexivity. Qed.
Lemma quiet_dup cp e acts : Forall quiet acts -> dup_ok cp e acts = true.
Proof. intros H. apply forallb_forall. intros a Ha. rewrite Forall_forall in H. specialize (H a Ha).
  destruct a; cbn in H; try contradiction; reflexivity. Qed.

Lemma opt_addr_refl a : opt_eqb addr_eqb (Some a) (Some a) = true.
Proof. cbn. apply addr_eqb_refl. Qed.

Lemma has_conn_peer_in p a : has_conn_peer p a = true -> exists x, In x (ta_conns a) /\ tc_peer x = p.
Proof. unfold has_conn_peer. intros H. apply existsb_exists in H as (x & Hx & E). apply addr_eqb_eq in E. eauto. Qed.

Lemma proj_set_conns a cs : proj (set_conns a cs) = proj a.
Proof. reflexivity. Qed.

Lemma step_inv2 s e s' acts relays cp : Inv2 s relays cp -> tstep s e = (s', acts) ->
  forallb (iso_act relays e) acts = true /\ dup_ok cp e acts = true /\
  Inv2 s' (relays_step relays e) (newp e acts ++ cpf e cp).
Proof.
  intros HI H. pose proof HI as [Hr Hnd Hcp]. subst relays.
  assert (Same : forall l, match e with TEnd _ | TAlloc _ _ _ => False | _ => True end ->
            Inv2 s (relays_step (map proj (tallocs s)) e) (newp e l ++ cpf e cp)) by (intros l He; apply inv2_same; assumption).
  destruct e as [c u r|c i|c|c tid au peer vetoed dial_ok cid|relay p cid|dc tid au cid|cid fromc d|cid cside|dt]; unfold tstep in H.
  - (* TAlloc *)
    destruct (tfind c (tallocs s)) as [a|] eqn:Hf; inversion H; subst; clear H; (split; [reflexivity|split; [reflexivity|]]);
      cbn [relays_step newp flat_map app cpf]; rewrite rfind_client_map, Hf; cbn [option_map].
    + exact HI.
    + constructor; cbn [tallocs].
      * rewrite map_app. reflexivity.
      * rewrite map_app. cbn. apply NoDup_app_intro; [exact Hnd|repeat constructor; intros []|].
        intros x Hx [<-|[]]. apply (tfind_none _ _ Hf). exact Hx.
      * intros q Hq. apply Hcp. apply in_pairs in Hq as (b & x & Hb & Hx & ->). apply in_app_iff in Hb as [Hb|[<-|[]]]; [|destruct Hx].
        apply in_pairs. eauto.
  - (* TPerm *)
    destruct (tfind c (tallocs s)) as [a|] eqn:Hf; inversion H; subst; clear H; (split; [reflexivity|split; [reflexivity|]]).
    + apply tfind_some in Hf as [Ha Hc]. apply (inv2_replace s _ cp a); auto.
      * unfold proj. cbn. rewrite Hc. reflexivity.
      * cbn [ta_conns]. intros x Hx. left. eauto.
    + apply Same. exact I.
  - (* TEnd *)
    destruct (tfind c (tallocs s)) as [a|] eqn:Hf; inversion H; subst; clear H.
    + assert (Q : Forall quiet (flat_map (fun x => TPeerClosed (ta_relay a) (tc_peer x) :: match tc_data x with Some d => [TDataClosed d] | None => [] end) (ta_conns a))).
      { apply Forall_forall. intros y Hy. apply in_flat_map in Hy as (x & _ & [<-|Hy]); [exact I|]. destruct (tc_data x); [destruct Hy as [<-|[]]; exact I|destruct Hy]. }
      split; [|split; [apply quiet_dup; exact Q|]].
      * apply forallb_forall. intros y Hy. apply in_flat_map in Hy as (x & _ & [<-|Hy]).
        -- cbn [iso_act]. rewrite rfind_client_map, Hf. apply opt_addr_refl.
        -- destruct (tc_data x); [destruct Hy as [<-|[]]; reflexivity|destruct Hy].
      * rewrite (quiet_newp _ _ Q). cbn [app relays_step cpf]. destruct (tremove_nodup c _ Hnd) as [N1 N2]. constructor; cbn [tallocs].
        -- apply rremove_map.
        -- exact N1.
        -- intros q Hq. apply in_pairs in Hq as (b & x & Hb & Hx & ->). rewrite has_filter.
           ++ apply Hcp. apply in_pairs. exists b, x. split; [eapply tremove_in; eauto|auto].
           ++ cbn. intros E. apply N2. rewrite <- E at 1. apply in_map. exact Hb.
    + split; [reflexivity|split; [reflexivity|]]. cbn [newp flat_map app relays_step cpf].
      rewrite rremove_absent by (rewrite rfind_client_map, Hf; reflexivity).
      constructor; auto. intros q Hq. rewrite has_filter; [apply Hcp; exact Hq|].
      apply in_pairs in Hq as (b & x & Hb & Hx & ->). cbn. intros E. apply (tfind_none _ _ Hf). rewrite <- E. apply in_map. exact Hb.
  - (* TConnect *)
    destruct au as [u|]; [|inversion H; subst; split; [cbn; rewrite addr_eqb_refl; reflexivity|split; [reflexivity|apply Same; exact I]]].
    destruct (tfind c (tallocs s)) as [a|] eqn:Hf; [|inversion H; subst; split; [reflexivity|split; [reflexivity|apply Same; exact I]]].
    pose proof (tfind_some _ _ _ Hf) as [Ha Hc].
    destruct (negb (ta_user a =? u)%N); [inversion H; subst; split; [reflexivity|split; [reflexivity|apply Same; exact I]]|].
    destruct peer as [p|]; [|inversion H; subst; split; [cbn; rewrite addr_eqb_refl; reflexivity|split; [reflexivity|apply Same; exact I]]].
    destruct vetoed; [inversion H; subst; split; [cbn; rewrite addr_eqb_refl; reflexivity|split; [reflexivity|apply Same; exact I]]|].
    destruct (port p =? 0)%N; [inversion H; subst; split; [reflexivity|split; [reflexivity|apply Same; exact I]]|].
    destruct (tlocked s); [inversion H; subst; split; [reflexivity|split; [reflexivity|apply Same; exact I]]|].
    destruct (has_conn_peer p a) eqn:Hcpr.
    { injection H as <- <-. split; [cbn; rewrite addr_eqb_refl; reflexivity|split; [|apply Same; exact I]].
      cbn [dup_ok forallb]. rewrite Bool.andb_true_r. apply has_conn_peer_in in Hcpr as (x & Hx & Hp).
      assert (Hq : In (ta_client a, tc_peer x) (pairs (tallocs s))) by (apply in_pairs; exists a, x; auto).
      apply Hcp in Hq. unfold has in Hq. cbn [fst snd] in Hq. rewrite Hp, Hc in Hq. exact Hq. }
    destruct (negb dial_ok); [inversion H; subst; split; [cbn; rewrite addr_eqb_refl; reflexivity|split; [reflexivity|apply Same; exact I]]|].
    destruct (has_conn_id cid (tallocs s)).
    { inversion H; subst. split; [|split; [reflexivity|apply Same; exact I]].
      cbn [forallb iso_act]. rewrite rfind_client_map, Hf. cbn [option_map]. rewrite opt_addr_refl. reflexivity. }
    inversion H; subst; clear H. split; [cbn; rewrite addr_eqb_refl; reflexivity|split; [reflexivity|]].
    apply (inv2_replace s _ cp a); auto.
    cbn [set_conns ta_conns]. intros x Hx. apply in_app_iff in Hx as [Hx|[<-|[]]]; [left; eauto|right]. cbn. left. reflexivity.
  - (* TPeerConn *)
    destruct (tfind_relay relay (tallocs s)) as [a|] eqn:Hf; [|inversion H; subst; split; [reflexivity|split; [reflexivity|apply Same; exact I]]].
    pose proof (tfind_relay_some _ _ _ Hf) as [Ha Hrl].
    destruct (negb (existsb (N.eqb (ip p)) (ta_perms a))); [inversion H; subst; split; [cbn; rewrite addr_eqb_refl; reflexivity|split; [reflexivity|apply Same; exact I]]|].
    destruct (tlocked s); [inversion H; subst; split; [reflexivity|split; [reflexivity|apply Same; exact I]]|].
    destruct (has_conn_id cid (tallocs s) || has_conn_peer p a); [inversion H; subst; split; [cbn; rewrite addr_eqb_refl; reflexivity|split; [reflexivity|apply Same; exact I]]|].
    inversion H; subst; clear H. split; [|split; [reflexivity|]].
    + cbn [forallb iso_act]. rewrite rfind_relay_map, Hf. cbn [option_map]. rewrite opt_addr_refl. reflexivity.
    + apply (inv2_replace s _ cp a); auto.
      cbn [set_conns ta_conns]. intros x Hx. apply in_app_iff in Hx as [Hx|[<-|[]]]; [left; eauto|right]. cbn. left. reflexivity.
  - (* TConnBind *)
    destruct au as [u|]; [|inversion H; subst; split; [reflexivity|split; [reflexivity|apply Same; exact I]]].
    destruct cid as [k|]; [|inversion H; subst; split; [reflexivity|split; [reflexivity|apply Same; exact I]]].
    destruct (tlocked s); [inversion H; subst; split; [reflexivity|split; [reflexivity|apply Same; exact I]]|].
    destruct (owner_of k (tallocs s)) as [[a x]|] eqn:Ho; [|inversion H; subst; split; [reflexivity|split; [reflexivity|apply Same; exact I]]].
    destruct (negb (ta_user a =? u)%N || tc_bound x); [inversion H; subst; split; [reflexivity|split; [reflexivity|apply Same; exact I]]|].
    inversion H; subst; clear H. split; [reflexivity|split; [reflexivity|]]. apply owner_of_in in Ho as (Ha & Hx & _).
    apply (inv2_replace s _ cp a); auto.
    cbn [set_conns ta_conns]. intros y Hy. left. apply in_map_iff in Hy as (z & <- & Hz).
    destruct (tc_id z =? k)%N; [exists x; split; [exact Hx|reflexivity]|exists z; split; [exact Hz|reflexivity]].
  - (* TData *)
    destruct (owner_of cid (tallocs s)) as [[a x]|]; [destruct (tc_bound x)|]; inversion H; subst;
      (split; [reflexivity|split; [reflexivity|apply Same; exact I]]).
  - (* TCloseSide *)
    destruct (owner_of cid (tallocs s)) as [[a x]|] eqn:Ho; [|inversion H; subst; split; [reflexivity|split; [reflexivity|apply Same; exact I]]].
    destruct (tc_bound x); [|inversion H; subst; split; [reflexivity|split; [reflexivity|apply Same; exact I]]].
    inversion H; subst; clear H. apply owner_of_in in Ho as (Ha & Hx & _).
    split; [destruct cside; [reflexivity|destruct (tc_data x); reflexivity]|].
    split; [destruct cside; [reflexivity|destruct (tc_data x); reflexivity]|].
    apply (inv2_replace s _ cp a); auto.
    unfold drop_conn. cbn [set_conns ta_conns]. intros y Hy. left. apply filter_In in Hy as [Hy _]. eauto.
  - (* TTick *)
    inversion H; subst; clear H.
    set (t := tnow s + Z.max 0 dt). set (expired := fun x : tconn => negb (tc_bound x) && (tc_dl x <=? t)).
    assert (Q : Forall quiet (flat_map (fun a => map (fun x => TPeerClosed (ta_relay a) (tc_peer x)) (filter expired (ta_conns a))) (tallocs s))).
    { apply Forall_forall. intros y Hy. apply in_flat_map in Hy as (a & _ & Hy). apply in_map_iff in Hy as (x & <- & _). exact I. }
    split; [|split; [apply quiet_dup; exact Q|]].
    + apply forallb_forall. intros y Hy. apply in_flat_map in Hy as (a & _ & Hy). apply in_map_iff in Hy as (x & <- & _). reflexivity.
    + rewrite (quiet_newp _ _ Q). cbn [app relays_step cpf]. constructor; cbn [tallocs].
      * rewrite map_map. apply map_ext. intros a. reflexivity.
      * rewrite map_map. cbn [set_conns ta_client]. exact Hnd.
      * intros q Hq. apply Hcp. apply in_pairs in Hq as (b & x & Hb & Hx & ->). apply in_map_iff in Hb as (a & <- & Ha).
        cbn [set_conns ta_conns ta_client] in *. apply filter_In in Hx as [Hx _]. apply in_pairs. eauto.
Qed.

(* ---------- every history ---------- *)
Lemma iso_dup_model : forall h s relays cp, Inv2 s relays cp ->
  iso_from relays (tmodel_steps s h) = true /\ dup_from cp (tmodel_steps s h) = true.
Proof.
  induction h as [|e h IH]; intros s relays cp HI; cbn [tmodel_steps]; [split; reflexivity|].
  destruct (tstep s e) as [s' acts] eqn:Hs.
  destruct (step_inv2 _ _ _ _ _ _ HI Hs) as (I1 & I2 & I3).
  destruct (IH _ _ _ I3) as [J1 J2].
  cbn [iso_from ts_ev ts_acts]. rewrite dup_from_cons. cbn [ts_ev ts_acts]. rewrite I1, I2, J1, J2. split; reflexivity.
Qed.

Lemma tinit_inv2 : Inv2 tinit [] [].
Proof. constructor; cbn; [reflexivity|constructor|intros ? []]. Qed.

Lemma tagree_model : forall h s, C16Check.agree_from s (tmodel_steps s h) = true.
Proof.
  induction h as [|e h IH]; intros s; [reflexivity|]. cbn [tmodel_steps]. destruct (tstep s e) as [s' a] eqn:Hs.
  cbn [C16Check.agree_from ts_ev ts_acts]. rewrite Hs, IH, Bool.andb_true_r.
  unfold mset_eqb. rewrite Nat.eqb_refl. apply forallb_forall. intros x _. apply Nat.eqb_refl.
Qed.

(* non-vacuity: two allocations connect to the same peer; the second gets its own connection, a repeated Connect
   by the first gets 446, and an inbound connection is announced to the owner of that relayed address *)
Example tcp_iso_example :
  let c1 := A 1 5000 in let c2 := A 2 5000 in let r1 := A 9 49152 in let r2 := A 9 49153 in let p := A 7 80 in
  map ts_acts (tmodel_steps tinit
    [TAlloc c1 1 r1; TAlloc c2 2 r2; TPerm c2 7; TConnect c1 11 (Some 1%N) (Some p) false true 100; TConnect c2 12 (Some 2%N) (Some p) false true 101;
     TConnect c1 13 (Some 1%N) (Some p) false true 102; TPeerConn r2 (A 7 81) 103]) =
  [[]; []; []; [TSuccess c1 MConnect 11 (Some 100%N)]; [TSuccess c2 MConnect 12 (Some 101%N)]; [TError c1 MConnect 13 446];
   [TAttempt c2 (A 7 81) 103]].
Proof. vm_compute. reflexivity. Qed.
