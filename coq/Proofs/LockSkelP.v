From Turn Require Import Bytes LockSkel.
From Coq Require Import ZifyN ZifyNat ZifyBool.
Open Scope N_scope.

(* ---------- small facts ---------- *)
Lemma list_eqbN_eq a b : list_eqbN a b = true -> a = b.
Proof.
  revert b; induction a as [|x a IH]; destruct b as [|y b]; cbn; try discriminate; auto.
  intros H. apply andb_true_iff in H as [H1 H2]. apply N.eqb_eq in H1. f_equal; auto.
Qed.

Lemma st_eqb_eq a b : st_eqb a b = true -> a = b.
Proof.
  unfold st_eqb. intros H. apply andb_true_iff in H as [H1 H2]. apply list_eqbN_eq in H1, H2.
  destruct a, b; cbn in *; congruence.
Qed.

Lemma edge_eqb_eq a b : edge_eqb a b = true -> a = b.
Proof.
  unfold edge_eqb. intros H. apply andb_true_iff in H as [H1 H2]. apply N.eqb_eq in H1, H2.
  destruct a, b; cbn in *; congruence.
Qed.

Lemma dedup_In {A} (eqb : A -> A -> bool) (Heq : forall a b, eqb a b = true -> a = b) x l :
  In x (dedup eqb l) <-> In x l.
Proof.
  induction l as [|a r IH]; cbn [dedup]; [tauto|].
  destruct (existsb (eqb a) r) eqn:E.
  - rewrite IH. split; [cbn; auto|]. intros [<-|H]; [|assumption].
    apply existsb_exists in E as (y & Hy & Ey). apply Heq in Ey. subst. assumption.
  - cbn. rewrite IH. tauto.
Qed.

Lemma existsb_In l h : existsb (N.eqb l) h = true <-> In l h.
Proof. rewrite existsb_exists. split; [intros (x & Hx & E); apply N.eqb_eq in E; subst; auto|intros H; exists l; split; [auto|apply N.eqb_refl]]. Qed.

Definition sel (k : ending) (e : exits) : list st :=
  match k with ENormal => xn e | EReturn => xr e | EBreak => xb e | ECont => xc e end.

Lemma sel_join k a b x : In x (sel k (join a b)) <-> In x (sel k a) \/ In x (sel k b).
Proof. destruct k; cbn; rewrite (dedup_In _ st_eqb_eq); apply in_app_iff. Qed.

Lemma xe_join a b x : In x (xe (join a b)) <-> In x (xe a) \/ In x (xe b).
Proof. cbn. rewrite (dedup_In _ edge_eqb_eq). apply in_app_iff. Qed.

(* every acquisition of the trace, paired with every lock held at that moment, is an edge of E *)
Definition edges_in (t : list acqev) (E : list (N * N)) : Prop :=
  forall hs l h, In (hs, l) t -> In h hs -> In (h, l) E.

Lemma edges_in_nil E : edges_in [] E.
Proof. intros hs l h []. Qed.

Lemma edges_in_app t1 t2 E : edges_in t1 E -> edges_in t2 E -> edges_in (t1 ++ t2) E.
Proof. intros H1 H2 hs l h Hin Hh. apply in_app_iff in Hin as [Hin|Hin]; eauto. Qed.

Lemma edges_in_mono t E E' : edges_in t E -> (forall x, In x E -> In x E') -> edges_in t E'.
Proof. intros H1 H2 hs l h Hin Hh. eauto. Qed.

Definition sub (e1 e : exits) : Prop :=
  (forall k x, In x (sel k e1) -> In x (sel k e)) /\ (forall x, In x (xe e1) -> In x (xe e)).

Lemma sub_join_l a b : sub a (join a b).
Proof. split; [intros k x H; apply sel_join; auto|intros x H; apply xe_join; auto]. Qed.
Lemma sub_join_r a b : sub b (join a b).
Proof. split; [intros k x H; apply sel_join; auto|intros x H; apply xe_join; auto]. Qed.
Lemma sub_trans a b c : sub a b -> sub b c -> sub a c.
Proof. intros [A1 A2] [B1 B2]. split; auto. Qed.

Section Sound.
  Variable guard : N -> N.
  Variable prog : N -> option cmd.
  Notation exec := (exec guard prog).
  Notation stuck := (stuck guard prog).

  (* what a checker answer [e] for command c in state s promises *)
  Definition sound_at (c : cmd) (s : st) (e : exits) : Prop :=
    (forall t k s', exec c s t k s' -> In s' (sel k e) /\ edges_in t (xe e)) /\ ~ stuck c s.

  Section WithOracle.
    Variable callee : N -> st -> option exits.
    Hypothesis callee_ok : forall n s e, callee n s = Some e -> sound_at (Call n) s e.
    Notation check := (check guard callee).

    Lemma seq_go_spec f l base e : seq_go f l base = Some e ->
      (forall s1, In s1 l -> exists e1, f s1 = Some e1 /\ sub e1 e) /\ sub base e.
    Proof.
      revert e. induction l as [|s1 r IH]; cbn [seq_go]; intros e H.
      - inversion H; subst. split; [intros ? []|split; auto].
      - destruct (f s1) as [e1|] eqn:H1; [|discriminate]. destruct (seq_go f r base) as [e2|] eqn:H2; [|discriminate].
        inversion H; subst. destruct (IH _ eq_refl) as [I1 I2]. split.
        + intros s2 [<-|Hin].
          * exists e1. split; [assumption|apply sub_join_l].
          * destruct (I1 s2 Hin) as (e3 & E3 & H3). exists e3. split; [assumption|]. eapply sub_trans; [exact H3|apply sub_join_r].
        + eapply sub_trans; [exact I2|apply sub_join_r].
    Qed.

    Ltac triv H := inversion H; subst; split;
      [intros t k s' X; inversion X; subst; split; [cbn; auto|apply edges_in_nil]|intros X; inversion X].

    (* soundness of the checker: every path of the command ends in one of the computed exit states, all
       its acquisitions are among the computed edges, and no path gets stuck *)
    Theorem check_sound c : forall s e, check c s = Some e -> sound_at c s e.
    Proof.
      unfold sound_at.
      induction c as [| l | l | l | f | l | | a IHa b IHb | a IHa b IHb | body IH | body IHs | | | n ]; intros s e H; cbn [LockSkel.check] in H.
      - triv H.
      - (* Acq *) inversion H; subst. split; [|intros X; inversion X].
        intros t k s' X; inversion X; subst. split; [cbn; auto|].
        intros hs l0 h [E|[]] Hh. inversion E; subst. cbn. apply in_map_iff. exists h. auto.
      - (* Rel *) destruct (remove1 l (held s)) as [h'|] eqn:Hr; [|discriminate]. inversion H; subst. split.
        + intros t k s' X. inversion X; subst. split; [|apply edges_in_nil]. cbn. left.
          match goal with H1 : remove1 _ _ = Some ?x |- _ => rewrite Hr in H1; inversion H1; subst end. reflexivity.
        + intros X. inversion X; subst. congruence.
      - triv H.
      - (* Acc *) destruct (existsb (N.eqb (guard f)) (held s)) eqn:Hx; [|discriminate]. inversion H; subst. split.
        + intros t k s' X; inversion X; subst. split; [cbn; auto|apply edges_in_nil].
        + intros X; inversion X; subst. apply existsb_In in Hx. contradiction.
      - (* Need *) destruct (existsb (N.eqb l) (held s)) eqn:Hx; [|discriminate]. inversion H; subst. split.
        + intros t k s' X; inversion X; subst. split; [cbn; auto|apply edges_in_nil].
        + intros X; inversion X; subst. apply existsb_In in Hx. contradiction.
      - triv H.
      - (* Seq *)
        destruct (check a s) as [ea|] eqn:Ha; [|discriminate]. destruct (IHa _ _ Ha) as [Ia Sa].
        destruct (seq_go_spec _ _ _ _ H) as [G1 [G2 G3]]. cbn in G3. split.
        + intros t k s' X. inversion X; subst.
          * match goal with X1 : exec a s ?t1 ENormal ?s1 |- _ => destruct (Ia _ _ _ X1) as [Hin Ht1] end. cbn in Hin.
            destruct (G1 _ Hin) as (e1 & E1 & [H1 H1e]). destruct (IHb _ _ E1) as [Ib _].
            match goal with X2 : exec b _ ?t2 k s' |- _ => destruct (Ib _ _ _ X2) as [Hin2 Ht2] end.
            split; [apply H1; assumption|]. apply edges_in_app; eapply edges_in_mono; eauto.
          * match goal with X1 : exec a s t k s' |- _ => destruct (Ia _ _ _ X1) as [Hin Ht1] end.
            split; [|eapply edges_in_mono; eauto]. apply G2. destruct k; cbn in *; auto; congruence.
        + intros X. inversion X; subst; [contradiction|].
          match goal with X1 : exec a s ?t1 ENormal ?s1 |- _ => destruct (Ia _ _ _ X1) as [Hin _] end. cbn in Hin.
          destruct (G1 _ Hin) as (e1 & E1 & _). destruct (IHb _ _ E1) as [_ Sb]. contradiction.
      - (* Alt *)
        destruct (check a s) as [e1|] eqn:Ha; [|discriminate]. destruct (check b s) as [e2|] eqn:Hb; [|discriminate].
        inversion H; subst. destruct (IHa _ _ Ha) as [Ia Sa]. destruct (IHb _ _ Hb) as [Ib Sb]. split.
        + intros t k s' X. inversion X; subst.
          * match goal with X1 : exec a s t k s' |- _ => destruct (Ia _ _ _ X1) as [Hin Ht] end.
            split; [apply sel_join; auto|]. eapply edges_in_mono; [exact Ht|]. intros x Hx. apply xe_join. auto.
          * match goal with X1 : exec b s t k s' |- _ => destruct (Ib _ _ _ X1) as [Hin Ht] end.
            split; [apply sel_join; auto|]. eapply edges_in_mono; [exact Ht|]. intros x Hx. apply xe_join. auto.
        + intros X. inversion X; subst; contradiction.
      - (* Loop *)
        destruct (check body s) as [eb|] eqn:Hb; [|discriminate].
        destruct (forallb (st_eqb s) (xn eb) && forallb (st_eqb s) (xc eb)) eqn:Hn; [|discriminate].
        apply andb_true_iff in Hn as [Hn Hc]. inversion H; subst; clear H. destruct (IH _ _ Hb) as [Ib Sb].
        assert (Back : forall t k s1, (k = ENormal \/ k = ECont) -> exec body s t k s1 -> s1 = s).
        { intros t k s1 Hk X. apply Ib in X as [X _]. destruct Hk as [-> | ->]; cbn in X.
          - rewrite forallb_forall in Hn. symmetry. apply st_eqb_eq. auto.
          - rewrite forallb_forall in Hc. symmetry. apply st_eqb_eq. auto. }
        split.
        + intros t k s' X. remember (Loop body) as L eqn:EL. remember s as s0 eqn:Es in X.
          induction X; inversion EL; subst; clear EL.
          * split; [cbn; auto|apply edges_in_nil].
          * assert (s1 = s) by (eapply (Back _ ENormal); [left; reflexivity|eassumption]). subst.
            destruct (IHX2 eq_refl eq_refl) as [A B]. split; [exact A|]. apply edges_in_app; [|exact B].
            match goal with X1 : exec body s ?t1 ENormal s |- _ => apply (Ib _ _ _ X1) end.
          * assert (s1 = s) by (eapply (Back _ ECont); [right; reflexivity|eassumption]). subst.
            destruct (IHX2 eq_refl eq_refl) as [A B]. split; [exact A|]. apply edges_in_app; [|exact B].
            match goal with X1 : exec body s ?t1 ECont s |- _ => apply (Ib _ _ _ X1) end.
          * match goal with X1 : exec body s ?t1 EBreak _ |- _ => destruct (Ib _ _ _ X1) as [A B] end.
            split; [cbn; right; exact A|exact B].
          * match goal with X1 : exec body s ?t1 EReturn _ |- _ => destruct (Ib _ _ _ X1) as [A B] end.
            split; [exact A|exact B].
        + intros X. remember (Loop body) as L eqn:EL. remember s as s0 eqn:Es in X.
          induction X; inversion EL; subst; clear EL.
          * contradiction.
          * assert (s1 = s) by (eapply (Back _ ENormal); [left; reflexivity|eassumption]). subst. apply IHX; auto.
          * assert (s1 = s) by (eapply (Back _ ECont); [right; reflexivity|eassumption]). subst. apply IHX; auto.
      - (* Sw *)
        destruct (check body s) as [eb|] eqn:Hb; [|discriminate]. inversion H; subst; clear H. destruct (IHs _ _ Hb) as [Ib Sb]. split.
        + intros t k s' X. inversion X; subst.
          * match goal with X1 : exec body s t EBreak s' |- _ => destruct (Ib _ _ _ X1) as [A B] end.
            split; [cbn; apply in_or_app; right; exact A|exact B].
          * match goal with X1 : exec body s t k s' |- _ => destruct (Ib _ _ _ X1) as [A B] end.
            split; [|exact B]. destruct k; cbn in *; auto; try (apply in_or_app; auto); congruence.
        + intros X. inversion X; subst. contradiction.
      - triv H.
      - triv H.
      - (* Call *) apply callee_ok. assumption.
    Qed.
  End WithOracle.

  Lemma exit_leaves_spec pre s : exit_leaves pre s = true -> run_defers (held s) (defers s) = Some pre.
  Proof.
    unfold exit_leaves. destruct (run_defers (held s) (defers s)) as [h|]; [|discriminate].
    intros E. apply list_eqbN_eq in E. congruence.
  Qed.

  Lemma call_of_ok chk (Hchk : forall c s e, chk c s = Some e -> sound_at c s e) n s e :
    call_of prog chk n s = Some e -> sound_at (Call n) s e.
  Proof.
    unfold call_of. destruct (prog n) as [body|] eqn:Hp; [|discriminate].
    destruct (chk body {| held := held s; defers := [] |}) as [e0|] eqn:Hc; [|discriminate].
    destruct (forallb (exit_leaves (held s)) (xn e0) && forallb (exit_leaves (held s)) (xr e0) &&
              match xb e0, xc e0 with [], [] => true | _, _ => false end) eqn:Hok; [|discriminate].
    apply andb_true_iff in Hok as [Hok Hbc]. apply andb_true_iff in Hok as [Hn Hr].
    rewrite forallb_forall in Hn, Hr.
    intros E. inversion E; subst; clear E. destruct (Hchk _ _ _ Hc) as [I S]. split.
    - intros t k s' X. inversion X; subst.
      match goal with Hp' : prog n = Some ?b |- _ => rewrite Hp in Hp'; inversion Hp'; subst end.
      match goal with X1 : exec _ {| held := held s; defers := [] |} t ?k1 ?s1 |- _ => destruct (I _ _ _ X1) as [A B] end.
      split; [|exact B]. cbn. left.
      match goal with Hk : _ = ENormal \/ _ = EReturn |- _ => destruct Hk as [-> | ->]; cbn in A end.
      + apply Hn in A. apply exit_leaves_spec in A. destruct s; cbn in *; congruence.
      + apply Hr in A. apply exit_leaves_spec in A. destruct s; cbn in *; congruence.
    - intros X. inversion X; subst.
      + match goal with Hp' : prog n = Some ?b |- _ => rewrite Hp in Hp'; inversion Hp'; subst end. contradiction.
      + match goal with Hp' : prog n = Some ?b |- _ => rewrite Hp in Hp'; inversion Hp'; subst end.
        match goal with X1 : exec _ {| held := held s; defers := [] |} ?t ?k1 ?s1 |- _ => destruct (I _ _ _ X1) as [A B] end.
        destruct k; cbn in A.
        * apply Hn in A. apply exit_leaves_spec in A. congruence.
        * apply Hr in A. apply exit_leaves_spec in A. congruence.
        * destruct (xb e0); [destruct A|discriminate].
        * destruct (xb e0); [|discriminate]. destruct (xc e0); [destruct A|discriminate].
      + congruence.
  Qed.

  Lemma oracle_ok fuel : forall n s e, oracle guard prog fuel n s = Some e -> sound_at (Call n) s e.
  Proof.
    induction fuel as [|f IH]; cbn [oracle]; intros n s e H; [discriminate|].
    eapply call_of_ok; [|exact H]. intros c s0 e0 Hc. eapply check_sound; [exact IH|exact Hc].
  Qed.

  Theorem checkf_sound fuel c s e : checkf guard prog fuel c s = Some e -> sound_at c s e.
  Proof. unfold checkf. intros H. eapply check_sound; [apply oracle_ok|exact H]. Qed.

  (* what a balanced function guarantees: started with exactly [pre] held, no path is stuck (no release
     of an unheld lock, no guarded access and no "caller must hold" point without the lock - in the function
     or in anything it calls), and on EVERY path - normal end or any return, through any number of loop
     iterations - the deferred releases run without error and leave exactly [pre] held again; every
     acquisition on the way, paired with each lock held at that moment, is one of the returned edges *)
  Theorem balanced_sound fuel pre c E : balanced guard prog fuel pre c = Some E ->
    ~ stuck c {| held := pre; defers := [] |} /\
    forall t k s', exec c {| held := pre; defers := [] |} t k s' ->
      (k = ENormal \/ k = EReturn) /\ run_defers (held s') (defers s') = Some pre /\ edges_in t E.
  Proof.
    unfold balanced. destruct (checkf guard prog fuel c {| held := pre; defers := [] |}) as [e|] eqn:Hc; [|discriminate].
    destruct (forallb (exit_leaves pre) (xn e) && forallb (exit_leaves pre) (xr e) &&
              match xb e, xc e with [], [] => true | _, _ => false end) eqn:Hok; [|discriminate].
    intros HE. inversion HE; subst; clear HE.
    apply andb_true_iff in Hok as [H Hbc]. apply andb_true_iff in H as [Hn Hr].
    destruct (checkf_sound _ _ _ _ Hc) as [Hs Hst]. split; [exact Hst|].
    intros t k s' X. destruct (Hs _ _ _ X) as [Hin Ht].
    destruct k; cbn in Hin.
    - split; [auto|]. rewrite forallb_forall in Hn. split; [apply exit_leaves_spec; auto|exact Ht].
    - split; [auto|]. rewrite forallb_forall in Hr. split; [apply exit_leaves_spec; auto|exact Ht].
    - destruct (xb e); [destruct Hin|discriminate].
    - destruct (xb e); [|discriminate]. destruct (xc e); [destruct Hin|discriminate].
  Qed.

  Definition fn_ok (E : list (N * N)) (n : N) (pre : list N) : Prop :=
    exists body, prog n = Some body /\
      ~ stuck body {| held := pre; defers := [] |} /\
      forall t k s', exec body {| held := pre; defers := [] |} t k s' ->
        (k = ENormal \/ k = EReturn) /\ run_defers (held s') (defers s') = Some pre /\ edges_in t E.

  Theorem all_edges_sound fuel fs E : all_edges guard prog fuel fs = Some E ->
    forall n pre, In (n, pre) fs -> fn_ok E n pre.
  Proof.
    revert E. induction fs as [|[n0 pre0] r IH]; cbn [all_edges]; intros E H n pre Hin; [destruct Hin|].
    destruct (prog n0) as [body|] eqn:Hp; [|discriminate].
    destruct (balanced guard prog fuel pre0 body) as [e1|] eqn:Hb; [|discriminate].
    destruct (all_edges guard prog fuel r) as [e2|] eqn:Hr; [|discriminate].
    inversion H; subst; clear H.
    destruct Hin as [Heq|Hin].
    - inversion Heq; subst. exists body. split; [assumption|].
      destruct (balanced_sound _ _ _ _ Hb) as [S P]. split; [exact S|].
      intros t k s' X. destruct (P _ _ _ X) as (A & B & C). split; [exact A|split; [exact B|]].
      eapply edges_in_mono; [exact C|]. intros x Hx. apply (dedup_In _ edge_eqb_eq). apply in_or_app. auto.
    - destruct (IH _ eq_refl _ _ Hin) as (body' & Hp' & S & P). exists body'. split; [assumption|split; [exact S|]].
      intros t k s' X. destruct (P _ _ _ X) as (A & B & C). split; [exact A|split; [exact B|]].
      eapply edges_in_mono; [exact C|]. intros x Hx. apply (dedup_In _ edge_eqb_eq). apply in_or_app. auto.
  Qed.
End Sound.

(* ---------- acquisition order ---------- *)
Lemma edges_ranked_spec r E : edges_ranked r E = true -> forall h l, In (h, l) E -> rank_of r h < rank_of r l.
Proof.
  unfold edges_ranked. rewrite forallb_forall. intros H h l Hin. apply H in Hin. cbn in Hin. lia.
Qed.

(* the whole program: every listed function is balanced and stuck-free, and there is ONE ranking of the
   locks under which every acquisition, on every path of every function, takes a lock ranked strictly
   above everything the goroutine already holds *)
Theorem program_ok_sound guard prog fuel fs : program_ok guard prog fuel fs = true ->
  exists (rk : N -> N) (E : list (N * N)),
    (forall n pre, In (n, pre) fs -> fn_ok guard prog E n pre) /\
    (forall h l, In (h, l) E -> rk h < rk l).
Proof.
  unfold program_ok. destruct (all_edges guard prog fuel fs) as [E|] eqn:HE; [|discriminate].
  intros Hr. exists (rank_of (ranks E)), E. split.
  - intros n pre Hin. eapply all_edges_sound; eauto.
  - apply edges_ranked_spec. exact Hr.
Qed.

(* ---------- why a strict ranking excludes lock deadlock: no wait-for cycle ---------- *)
Record thread := { t_held : list N; t_want : N }.
(* the thread is blocked acquiring t_want while holding t_held, and respects the ranking *)
Definition respects (rk : N -> N) (th : thread) : Prop := forall h, In h (t_held th) -> rk h < rk (t_want th).
(* a waits for b: the lock a wants is held by b *)
Definition waits (a b : thread) : Prop := In (t_want a) (t_held b).
Fixpoint wpath (a : thread) (l : list thread) (z : thread) : Prop :=
  match l with [] => waits a z | b :: r => waits a b /\ wpath b r z end.

Lemma wpath_rank rk l : forall a z, respects rk z -> Forall (respects rk) l -> wpath a l z -> rk (t_want a) < rk (t_want z).
Proof.
  induction l as [|b r IH]; cbn [wpath]; intros a z Hz Hl H.
  - apply Hz. exact H.
  - destruct H as [W P]. inversion Hl; subst.
    assert (rk (t_want a) < rk (t_want b)) by (match goal with Hb : respects rk b |- _ => apply Hb end; exact W).
    assert (rk (t_want b) < rk (t_want z)) by (apply IH; assumption). lia.
Qed.

Theorem ranked_no_waitfor_cycle rk a l : respects rk a -> Forall (respects rk) l -> ~ wpath a l a.
Proof. intros Ha Hl P. pose proof (wpath_rank rk l a a Ha Hl P). lia. Qed.
