(* History-level theorem for C12: the predicate the correspondence check evaluates on every observed
   trace of the real client ([C12Check.holds]: at most one result per transaction, every transmission
   on the closed-form schedule and never an eighth, a success only for the matching response, Close
   empties the table, the table never holds more than the started-and-unfinished transactions) is
   TRUE of every trace of the model, for every RTO, every pattern of socket write outcomes and every
   event history whose transaction ids are fresh (the property's own assumption). *)
From Turn Require Import Bytes ClientTx ClientTxP Common C12Check.
From Coq Require Import ZifyN ZifyNat ZifyBool.
Open Scope Z_scope.

(* ---------- the trace the model produces ---------- *)
Fixpoint model_steps (rto : Z) (wr : N -> nat -> bool) (s : state) (h : list event) : list ostep :=
  match h with
  | [] => []
  | e :: r => let '(s', a) := step rto wr s e in OS e a (N.of_nat (length (trs s'))) :: model_steps rto wr s' r
  end.
Definition model_case (rto : Z) (fail : list (N * nat)) (h : list event) : case :=
  TC rto fail (model_steps rto (wr_of fail) init h).
Definition starts (h : list event) : list N :=
  flat_map (fun e => match e with EStart i _ => [i] | _ => [] end) h.

(* ---------- start_of ---------- *)
Definition is_s0 (id : N) (a : action) : bool := match a with Sent i 0%nat _ => (i =? id)%N | _ => false end.
Lemma start_cons id a l : start_of id (a :: l) =
  if is_s0 id a then match a with Sent _ _ t => Some t | _ => None end else start_of id l.
Proof. unfold start_of. cbn [find]. change (match a with Sent i 0%nat _ => (i =? id)%N | _ => false end) with (is_s0 id a).
  destruct (is_s0 id a); reflexivity. Qed.
Lemma start_nil id : start_of id [] = None.
Proof. reflexivity. Qed.
Lemma is_s0_true id a : is_s0 id a = true -> exists t, a = Sent id 0 t.
Proof. destruct a as [i k t|i r t]; [destruct k|]; cbn; try discriminate. intros H. apply N.eqb_eq in H. subst. eauto. Qed.
Lemma start_app_some id t0 pre l : start_of id pre = Some t0 -> start_of id (pre ++ l) = Some t0.
Proof. induction pre as [|a pre IH]; [discriminate|]. cbn [app]. rewrite !start_cons. destruct (is_s0 id a); auto. Qed.
Lemma start_app_none id pre l : start_of id pre = None -> start_of id (pre ++ l) = start_of id l.
Proof. induction pre as [|a pre IH]; [reflexivity|]. cbn [app]. rewrite !start_cons. destruct (is_s0 id a) eqn:E; auto.
  apply is_s0_true in E as [t ->]. discriminate. Qed.
Lemma start_none id l : (forall k t, ~ In (Sent id k t) l) -> start_of id l = None.
Proof. induction l as [|a l IH]; intros H; [reflexivity|]. rewrite start_cons. destruct (is_s0 id a) eqn:E.
  - apply is_s0_true in E as [t ->]. exfalso. apply (H 0%nat t). left. reflexivity.
  - apply IH. intros k t Hin. apply (H k t). right. exact Hin. Qed.

Lemma NoDup_app_intro {A} (a b : list A) : NoDup a -> NoDup b -> (forall x, In x a -> In x b -> False) -> NoDup (a ++ b).
Proof. induction a as [|y a IH]; intros Ha Hb Hd; [exact Hb|]. inversion Ha; subst. cbn. constructor.
  - rewrite in_app_iff. intros [H|H]; [contradiction|]. apply (Hd y); [left; reflexivity|assumption].
  - apply IH; auto. intros x Hx1 Hx2. apply (Hd x); [right; assumption|assumption]. Qed.

Lemma result_ids_app a b : result_ids (a ++ b) = result_ids a ++ result_ids b.
Proof. unfold result_ids. apply flat_map_app. Qed.
Lemma in_result_ids i l : In i (result_ids l) <-> exists r t, In (Result i r t) l.
Proof. unfold result_ids. rewrite in_flat_map. split.
  - intros (a & Ha & Hi). destruct a as [|j r t]; [destruct Hi|]. destruct Hi as [<-|[]]. eauto.
  - intros (r & t & H). exists (Result i r t). split; [assumption|left; reflexivity]. Qed.

Section Tr.
  Variable rto : Z.
  Variable wr : N -> nat -> bool.

(* what the schedule clause of [holds] demands of one action, relative to the trace so far *)
Definition acond (l : list action) (a : action) : Prop :=
  match a with
  | Sent i k t => (k < max_rtx_count)%nat /\ exists t0, start_of i l = Some t0 /\ t = send_time t0 rto k
  | Result i RErrAllFailed t => exists t0, start_of i l = Some t0 /\ t = send_time t0 rto max_rtx_count
  | _ => True
  end.
Lemma acond_mono pre l a : acond pre a -> acond (pre ++ l) a.
Proof. destruct a as [i k t|i r t]; cbn.
  - intros (Hk & t0 & Hs & Ht). split; [assumption|]. exists t0. split; [apply start_app_some; assumption|assumption].
  - destruct r; auto. intros (t0 & Hs & Ht). exists t0. split; [apply start_app_some; assumption|assumption]. Qed.

(* one pending transaction relative to a table of start instants *)
Definition tinvS (st : N -> option Z) (x : tr) : Prop :=
  (t_nrtx x < max_rtx_count)%nat /\
  exists t0, st (t_id x) = Some t0 /\ t_dl x = send_time t0 rto (S (t_nrtx x)) /\ t_int x = interval_k rto (t_nrtx x).
(* what one transaction may emit *)
Definition aok (st : N -> option Z) (i : N) (a : action) : Prop :=
  exists t0, st i = Some t0 /\
  match a with
  | Sent j k t => j = i /\ (k < max_rtx_count)%nat /\ t = send_time t0 rto k
  | Result j RErrAllFailed t => j = i /\ t = send_time t0 rto max_rtx_count
  | Result j RErrWrite _ => j = i
  | Result _ _ _ => False
  end.

Lemma advance_one st fuel t : forall x o a, tinvS st x -> advance fuel wr t x = (o, a) ->
  Forall (aok st (t_id x)) a /\
  (result_ids a = [] \/ (result_ids a = [t_id x] /\ o = None)) /\
  (forall x', o = Some x' -> t_id x' = t_id x /\ tinvS st x').
Proof.
  induction fuel as [|f IH]; intros x o a Hx H; cbn [advance] in H.
  - inversion H; subst. split; [constructor|]. split; [left; reflexivity|]. intros x' E. inversion E; subst. auto.
  - destruct (t <? t_dl x).
    { inversion H; subst. split; [constructor|]. split; [left; reflexivity|]. intros x' E. inversion E; subst. auto. }
    destruct Hx as (Hn & t0 & Hst & Hdl & Hint).
    destruct (Nat.eqb_spec (S (t_nrtx x)) max_rtx_count) as [E|E].
    { inversion H; subst. destruct (t_ignore x).
      - split; [constructor|]. split; [left; reflexivity|]. discriminate.
      - split; [|split; [right; split; reflexivity|discriminate]].
        constructor; [|constructor]. exists t0. split; [assumption|]. split; [reflexivity|]. rewrite Hdl, E. reflexivity. }
    destruct (wr (t_id x) (S (t_nrtx x))).
    + destruct (advance f wr t _) as [o' a'] eqn:Ha. inversion H; subst; clear H.
      apply IH in Ha as (I1 & I2 & I3); cbn [t_id t_nrtx t_int t_dl t_ignore] in *.
      * split; [|split].
        -- constructor; [|exact I1]. exists t0. split; [assumption|]. split; [reflexivity|]. split; [lia|assumption].
        -- exact I2.
        -- exact I3.
      * split; cbn [t_id t_nrtx t_int t_dl t_ignore]; [lia|]. exists t0. split; [assumption|].
        split; [|rewrite Hint; reflexivity]. rewrite Hdl, Hint. reflexivity.
    + inversion H; subst. destruct (t_ignore x).
      * split; [constructor|]. split; [left; reflexivity|]. discriminate.
      * split; [|split; [right; split; reflexivity|discriminate]].
        constructor; [|constructor]. exists t0. split; [assumption|reflexivity].
Qed.

Lemma aok_id st i a : aok st i a -> (forall j k t, a = Sent j k t -> j = i) /\ (forall j r t, a = Result j r t -> j = i).
Proof. intros (t0 & _ & H). split; intros j ? t ->.
  - apply H.
  - destruct r; try contradiction; try apply H; assumption. Qed.

Lemma advance_all_inv st t : forall l l' a, Forall (tinvS st) l -> NoDup (map t_id l) -> advance_all wr t l = (l', a) ->
  Forall (fun act => exists i, In i (map t_id l) /\ aok st i act) a /\
  Forall (tinvS st) l' /\ incl (map t_id l') (map t_id l) /\ NoDup (map t_id l') /\
  NoDup (result_ids a) /\ (forall i, In i (result_ids a) -> In i (map t_id l) /\ ~ In i (map t_id l')).
Proof.
  induction l as [|x l IH]; cbn [advance_all]; intros l' a Hl Hnd H.
  - inversion H; subst. cbn. split; [constructor|]. split; [constructor|]. split; [intros ? []|].
    split; [constructor|]. split; [constructor|]. intros ? [].
  - inversion Hl as [|? ? Hx Hl0]; subst. inversion Hnd as [|? ? Hnx Hndl]; subst.
    destruct (advance (S max_rtx_count) wr t x) as [o a1] eqn:Ha. destruct (advance_all wr t l) as [r' a2] eqn:Hr.
    inversion H; subst; clear H.
    destruct (advance_one st _ _ _ _ _ Hx Ha) as (A1 & A2 & A3).
    destruct (IH _ _ Hl0 Hndl eq_refl) as (B1 & B2 & B3 & B4 & B5 & B6).
    assert (Hr1 : forall i, In i (result_ids a1) -> i = t_id x /\ o = None).
    { intros i Hi. destruct A2 as [E|[E ->]]; rewrite E in Hi; [destruct Hi|]. destruct Hi as [<-|[]]. auto. }
    split; [|split; [|split; [|split; [|split]]]].
    + apply Forall_app. split.
      * eapply Forall_impl; [|exact A1]. intros act Hact. exists (t_id x). split; [left; reflexivity|assumption].
      * eapply Forall_impl; [|exact B1]. intros act (i & Hi & Hact). exists i. split; [right; assumption|assumption].
    + destruct o as [x'|]; [constructor; [apply (A3 x' eq_refl)|assumption]|assumption].
    + destruct o as [x'|]; cbn [map].
      * destruct (A3 x' eq_refl) as (E & _). rewrite E. intros y [<-|Hy]; [left; reflexivity|right; apply B3; assumption].
      * intros y Hy. right. apply B3. assumption.
    + destruct o as [x'|]; cbn [map]; [|assumption].
      destruct (A3 x' eq_refl) as (E & _). rewrite E. constructor; [|assumption]. intros Hc. apply Hnx. apply B3. assumption.
    + rewrite result_ids_app. apply NoDup_app_intro; [| assumption |].
      * destruct A2 as [E|[E _]]; rewrite E; repeat constructor. intros [].
      * intros i H1 H2. apply Hr1 in H1 as (-> & _). apply B6 in H2 as (H2 & _). contradiction.
    + intros i Hi. rewrite result_ids_app in Hi. apply in_app_iff in Hi as [Hi|Hi].
      * apply Hr1 in Hi as (-> & ->). split; [left; reflexivity|]. intros Hc. apply Hnx. apply B3. assumption.
      * destruct (B6 i Hi) as (C1 & C2). split; [right; assumption|].
        destruct o as [x'|]; cbn [map]; [|assumption]. destruct (A3 x' eq_refl) as (E & _).
        intros [Hc|Hc]; [|contradiction]. rewrite E in Hc. subst i. contradiction.
Qed.

End Tr.

(* ---------- the table ---------- *)
Lemma find_tr_in id l x : find_tr id l = Some x -> In x l /\ t_id x = id.
Proof. induction l as [|y l IH]; cbn; [discriminate|]. destruct (N.eqb_spec (t_id y) id) as [E|E].
  - intros H. inversion H; subst. split; [left; reflexivity|reflexivity].
  - intros H. apply IH in H as (H1 & H2). split; [right; assumption|assumption]. Qed.
Lemma in_del_tr id l y : In y (del_tr id l) -> In y l /\ t_id y <> id.
Proof. induction l as [|z l IH]; cbn; [intros []|]. destruct (N.eqb_spec (t_id z) id) as [E|E].
  - intros H. apply IH in H as (H1 & H2). split; [right; assumption|assumption].
  - intros [<-|H]; [split; [left; reflexivity|assumption]|]. apply IH in H as (H1 & H2). split; [right; assumption|assumption]. Qed.
Lemma nodup_del_tr id l : NoDup (map t_id l) -> NoDup (map t_id (del_tr id l)).
Proof. induction l as [|z l IH]; cbn; intros H; [constructor|]. inversion H as [|? ? Hn Hl]; subst.
  destruct (N.eqb_spec (t_id z) id) as [E|E]; [auto|]. cbn. constructor; [|auto].
  intros Hc. apply Hn. apply in_map_iff in Hc as (y & Hy1 & Hy2). apply in_del_tr in Hy2 as (Hy2 & _).
  rewrite <- Hy1. apply in_map. assumption. Qed.

Lemma close_results now0 l :
  let a := flat_map (fun x => if t_ignore x then [] else [Result (t_id x) RErrClosed now0]) l in
  (forall act, In act a -> exists i, act = Result i RErrClosed now0) /\
  (NoDup (map t_id l) -> NoDup (result_ids a)) /\ (forall i, In i (result_ids a) -> In i (map t_id l)).
Proof.
  induction l as [|x l IH]; cbn [flat_map].
  - cbn. split; [intros ? []|]. split; [constructor|intros ? []].
  - destruct IH as (I1 & I2 & I3). cbv zeta. destruct (t_ignore x); cbn [app].
    + split; [exact I1|]. split.
      * intros H. inversion H; subst. auto.
      * intros i Hi. right. apply I3. assumption.
    + split; [intros act [<-|H]; [eauto|apply I1; assumption]|]. split.
      * intros H. inversion H as [|? ? Hn Hl]; subst. cbn. constructor; [|apply I2; assumption].
        intros Hc. apply Hn. apply I3. exact Hc.
      * cbn. intros i [<-|Hi]; [left; reflexivity|right; apply I3; assumption].
Qed.

Section Inv.
  Variable rto : Z.
  Variable wr : N -> nat -> bool.

Definition tinv (pre : list action) (st : list (N * bool)) (dn : list N) (x : tr) : Prop :=
  tinvS rto (fun i => start_of i pre) x /\ In (t_id x) (map fst st) /\ ~ In (t_id x) dn.

Record Inv (s : state) (pre : list action) (st : list (N * bool)) (dn : list N) (t : Z) : Prop := {
  i_now : now s = t;
  i_sched : Forall (acond rto pre) pre;
  i_trs : Forall (tinv pre st dn) (trs s);
  i_nd : NoDup (map t_id (trs s));
  i_res : NoDup (result_ids pre);
  i_resdone : forall i, In i (result_ids pre) -> In i dn;
  i_sent : forall i k t', In (Sent i k t') pre -> In i (map fst st);
  i_done : forall i, In i dn -> In i (map fst st);
  i_started : NoDup (map fst st) }.

Definition started' (e : event) (st : list (N * bool)) := match e with EStart id ign => (id, ign) :: st | _ => st end.
Definition dt_of (e : event) : Z := match e with ETick dt => Z.max 0 dt | _ => 0 end.
Definition efresh (e : event) (st : list (N * bool)) : Prop := match e with EStart id _ => ~ In id (map fst st) | _ => True end.
Definition resok (e : event) (a : list action) : bool :=
  forallb (fun a => match a with
                    | Result i ROk _ => match e with EResp j => (i =? j)%N | _ => false end
                    | Result i RErrClosed _ => match e with EClose => true | _ => false end
                    | _ => true end) a.

Lemma tinvS_mono pre l x : tinvS rto (fun i => start_of i pre) x -> tinvS rto (fun i => start_of i (pre ++ l)) x.
Proof. intros (Hn & t0 & Hs & H). split; [assumption|]. exists t0. split; [apply start_app_some; assumption|assumption]. Qed.
Lemma tinv_weaken pre l st st' dn dn' x : tinv pre st dn x ->
  (forall i, In i (map fst st) -> In i (map fst st')) -> ~ In (t_id x) dn' -> tinv (pre ++ l) st' dn' x.
Proof. intros (H1 & H2 & H3) Hst Hdn. split; [apply tinvS_mono; assumption|]. split; [apply Hst; assumption|assumption]. Qed.
Lemma ids_started pre st dn l i : Forall (tinv pre st dn) l -> In i (map t_id l) -> In i (map fst st) /\ ~ In i dn.
Proof. intros H Hi. apply in_map_iff in Hi as (x & <- & Hx). rewrite Forall_forall in H. destruct (H x Hx) as (_ & H2 & H3). auto. Qed.
Lemma aok_acond pre l i act : aok rto (fun j => start_of j pre) i act -> acond rto (pre ++ l) act.
Proof. intros (t0 & Hs & H). destruct act as [j k t|j r t]; cbn.
  - destruct H as (-> & Hk & ->). split; [assumption|]. exists t0. split; [apply start_app_some; assumption|reflexivity].
  - destruct r; auto. destruct H as (-> & ->). exists t0. split; [apply start_app_some; assumption|reflexivity]. Qed.

Lemma step_inv s pre st dn t e s' a : Inv s pre st dn t -> efresh e st -> step rto wr s e = (s', a) ->
  Inv s' (pre ++ a) (started' e st) (result_ids a ++ dn) (t + dt_of e) /\ resok e a = true /\ (e = EClose -> trs s' = []).
Proof.
  intros [Hnow Hsched Htrs Hnd Hres Hrd Hsent Hdone Hst] Hfr H.
  destruct e as [id ign|id|dt|]; cbn [step] in H; cbn [started' dt_of efresh] in *.
  - (* EStart *)
    assert (Hne : forall x, In x (trs s) -> t_id x <> id).
    { intros x Hx E. rewrite Forall_forall in Htrs. destruct (Htrs x Hx) as (_ & H2 & _). rewrite E in H2. contradiction. }
    destruct (wr id 0%nat) eqn:Hw; inversion H; subst; clear H.
    + assert (Hnone : start_of id pre = None).
      { apply start_none. intros k t' Hin. apply Hfr. eapply Hsent. exact Hin. }
      assert (Hs : start_of id (pre ++ [Sent id 0 (now s)]) = Some (now s)).
      { rewrite start_app_none by assumption. rewrite start_cons. cbn [is_s0]. rewrite N.eqb_refl. reflexivity. }
      split; [|split; [reflexivity|discriminate]]. cbn [result_ids flat_map app].
      constructor; cbn [now trs].
      * lia.
      * apply Forall_app. split; [eapply Forall_impl; [|exact Hsched]; intros ?; apply acond_mono|].
        constructor; [|constructor]. cbn. split; [unfold max_rtx_count; lia|]. exists (now s). split; [exact Hs|reflexivity].
      * apply Forall_app. split.
        -- rewrite Forall_forall in *. intros x Hx. eapply tinv_weaken; [apply Htrs; assumption| |apply (Htrs x Hx)].
           intros i Hi. right. assumption.
        -- constructor; [|constructor]. split; [|split]; cbn [t_id t_nrtx t_int t_dl].
           ++ split; cbn [t_id t_nrtx t_int t_dl]; [unfold max_rtx_count; lia|]. exists (now s). split; [exact Hs|]. split; reflexivity.
           ++ left. reflexivity.
           ++ intros Hc. apply Hfr. apply Hdone. assumption.
      * rewrite map_app. apply NoDup_app_intro; [assumption|repeat constructor; intros []|].
        intros x Hx [<-|[]]. apply in_map_iff in Hx as (y & Hy1 & Hy2). apply (Hne y Hy2). assumption.
      * rewrite result_ids_app. cbn. rewrite app_nil_r. assumption.
      * intros i Hi. rewrite result_ids_app in Hi. cbn in Hi. rewrite app_nil_r in Hi. auto.
      * intros i k t' Hin. apply in_app_iff in Hin as [Hin|[E|[]]]; [right; eapply Hsent; eassumption|]. inversion E; subst. left. reflexivity.
      * intros i Hi. right. auto.
      * cbn. constructor; assumption.
    + split; [|split; [reflexivity|discriminate]]. cbn [result_ids flat_map app].
      constructor.
      * lia.
      * apply Forall_app. split; [eapply Forall_impl; [|exact Hsched]; intros ?; apply acond_mono|].
        constructor; [exact I|constructor].
      * rewrite Forall_forall in *. intros x Hx. eapply tinv_weaken; [apply Htrs; assumption|intros i Hi; right; assumption|].
        intros [E|Hc]; [apply (Hne x Hx); symmetry; assumption|]. apply (Htrs x Hx). assumption.
      * assumption.
      * rewrite result_ids_app. apply NoDup_app_intro; [assumption|repeat constructor; intros []|].
        intros x Hx [<-|[]]. apply Hfr. apply Hdone. apply Hrd. assumption.
      * intros i Hi. rewrite result_ids_app in Hi. apply in_app_iff in Hi as [Hi|[<-|[]]]; [right; auto|left; reflexivity].
      * intros i k t' Hin. apply in_app_iff in Hin as [Hin|[E|[]]]; [right; eapply Hsent; eassumption|discriminate].
      * intros i [<-|Hi]; [left; reflexivity|right; auto].
      * cbn. constructor; assumption.
  - (* EResp *)
    destruct (find_tr id (trs s)) as [x|] eqn:Hf.
    + apply find_tr_in in Hf as (Hx & Hid). inversion H; subst; clear H.
      assert (Hxd : ~ In (t_id x) dn) by (rewrite Forall_forall in Htrs; apply (Htrs x Hx)).
      assert (Hxs : In (t_id x) (map fst st)) by (rewrite Forall_forall in Htrs; apply (Htrs x Hx)).
      split; [|split; [destruct (t_ignore x); cbn; [reflexivity|rewrite N.eqb_refl; reflexivity]|discriminate]].
      assert (Hsub : forall l, (forall i, In i (result_ids l) -> i = t_id x) -> (forall i k t', ~ In (Sent i k t') l) ->
                Forall (acond rto (pre ++ l)) l -> NoDup (result_ids l) ->
                Inv {| now := now s; trs := del_tr (t_id x) (trs s) |} (pre ++ l) st (result_ids l ++ dn) (now s + 0)).
      { intros l Hl1 Hl2 Hl3 Hl4. constructor; cbn [now trs].
        - lia.
        - apply Forall_app. split; [eapply Forall_impl; [|exact Hsched]; intros ?; apply acond_mono|assumption].
        - rewrite Forall_forall in *. intros y Hy. apply in_del_tr in Hy as (Hy & Hyn).
          eapply tinv_weaken; [apply Htrs; assumption|auto|]. intros Hc. apply in_app_iff in Hc as [Hc|Hc].
          + apply Hl1 in Hc. contradiction.
          + apply (Htrs y Hy). assumption.
        - apply nodup_del_tr. assumption.
        - rewrite result_ids_app. apply NoDup_app_intro; [assumption|assumption|].
          intros i Hi1 Hi2. apply Hl1 in Hi2. subst i. apply Hxd. apply Hrd. assumption.
        - intros i Hi. rewrite result_ids_app in Hi. apply in_app_iff in Hi as [Hi|Hi]; apply in_app_iff; [right; auto|left; assumption].
        - intros i k t' Hin. apply in_app_iff in Hin as [Hin|Hin]; [eapply Hsent; eassumption|exfalso; eapply Hl2; eassumption].
        - intros i Hi. apply in_app_iff in Hi as [Hi|Hi]; [apply Hl1 in Hi; subst; assumption|auto].
        - assumption. }
      destruct (t_ignore x).
      * apply Hsub; [intros ? []|intros ? ? ? []|constructor|constructor].
      * apply Hsub.
        -- cbn. intros i [<-|[]]. reflexivity.
        -- intros i k t' [E|[]]. discriminate.
        -- constructor; [exact I|constructor].
        -- cbn. repeat constructor. intros [].
    + inversion H; subst; clear H. split; [|split; [reflexivity|discriminate]].
      cbn [result_ids flat_map app]. rewrite app_nil_r. constructor; try assumption. lia.
  - (* ETick *)
    destruct (advance_all wr (now s + Z.max 0 dt) (trs s)) as [l a0] eqn:Ha. inversion H; subst; clear H.
    assert (HS : Forall (tinvS rto (fun i => start_of i pre)) (trs s)).
    { eapply Forall_impl; [|exact Htrs]. intros x Hx. apply Hx. }
    destruct (advance_all_inv rto wr _ _ _ _ _ HS Hnd Ha) as (B1 & B2 & B3 & B4 & B5 & B6).
    rewrite Forall_forall in B1.
    split; [|split; [|discriminate]].
    + constructor; cbn [now trs].
      * lia.
      * apply Forall_app. split; [eapply Forall_impl; [|exact Hsched]; intros ?; apply acond_mono|].
        apply Forall_forall. intros act Hact. destruct (B1 act Hact) as (i & _ & Hok). eapply aok_acond. exact Hok.
      * apply Forall_forall. intros x Hx. rewrite Forall_forall in B2.
        assert (Hxi : In (t_id x) (map t_id (trs s))) by (apply B3; apply in_map; assumption).
        destruct (ids_started _ _ _ _ _ Htrs Hxi) as (C1 & C2).
        split; [apply tinvS_mono; apply B2; assumption|]. split; [assumption|].
        intros Hc. apply in_app_iff in Hc as [Hc|Hc]; [|contradiction].
        apply B6 in Hc as (_ & Hc). apply Hc. apply in_map. assumption.
      * assumption.
      * rewrite result_ids_app. apply NoDup_app_intro; [assumption|assumption|].
        intros i Hi1 Hi2. apply B6 in Hi2 as (Hi2 & _). destruct (ids_started _ _ _ _ _ Htrs Hi2) as (_ & C2). apply C2. auto.
      * intros i Hi. rewrite result_ids_app in Hi. apply in_app_iff in Hi as [Hi|Hi]; apply in_app_iff; [right; auto|left; assumption].
      * intros i k t' Hin. apply in_app_iff in Hin as [Hin|Hin]; [eapply Hsent; eassumption|].
        destruct (B1 _ Hin) as (i0 & Hi0 & Hok). destruct (aok_id _ _ _ _ Hok) as (E & _). rewrite (E _ _ _ eq_refl).
        apply (ids_started _ _ _ _ _ Htrs Hi0).
      * intros i Hi. apply in_app_iff in Hi as [Hi|Hi]; [|auto]. apply B6 in Hi as (Hi & _). apply (ids_started _ _ _ _ _ Htrs Hi).
      * assumption.
    + unfold resok. apply forallb_forall. intros act Hact. destruct (B1 act Hact) as (i & _ & (t0 & _ & Hok)).
      destruct act as [|j r t']; [reflexivity|]. destruct r; try reflexivity; contradiction.
  - (* EClose *)
    inversion H; subst; clear H.
    destruct (close_results (now s) (trs s)) as (K1 & K2 & K3). cbv zeta in K1, K2, K3.
    set (a0 := flat_map (fun x : tr => if t_ignore x then [] else [Result (t_id x) RErrClosed (now s)]) (trs s)) in *.
    split; [|split; [|reflexivity]].
    + constructor; cbn [now trs].
      * lia.
      * apply Forall_app. split; [eapply Forall_impl; [|exact Hsched]; intros ?; apply acond_mono|].
        apply Forall_forall. intros act Hact. apply K1 in Hact as (i & ->). exact I.
      * constructor.
      * constructor.
      * rewrite result_ids_app. apply NoDup_app_intro; [assumption|auto|].
        intros i Hi1 Hi2. apply K3 in Hi2. destruct (ids_started _ _ _ _ _ Htrs Hi2) as (_ & C2). apply C2. auto.
      * intros i Hi. rewrite result_ids_app in Hi. apply in_app_iff in Hi as [Hi|Hi]; apply in_app_iff; [right; auto|left; assumption].
      * intros i k t' Hin. apply in_app_iff in Hin as [Hin|Hin]; [eapply Hsent; eassumption|]. apply K1 in Hin as (? & ?). discriminate.
      * intros i Hi. apply in_app_iff in Hi as [Hi|Hi]; [|auto]. apply K3 in Hi. apply (ids_started _ _ _ _ _ Htrs Hi).
      * assumption.
    + unfold resok. apply forallb_forall. intros act Hact. apply K1 in Hact as (i & ->). reflexivity.
Qed.
End Inv.

(* ---------- from one step to every history ---------- *)
Lemma holds_from_cons rto t st dn e a sz r :
  holds_from rto t st dn (OS e a sz :: r) =
  resok e a && (match e with EClose => (sz =? 0)%N | _ => true end) &&
  (sz <=? N.of_nat (length (filter (fun p => negb (existsb (N.eqb (fst p)) (result_ids a ++ dn))) (started' e st))))%N &&
  holds_from rto (t + dt_of e) (started' e st) (result_ids a ++ dn) r.
Proof. reflexivity. Qed.

Lemma inv_size rto s pre st dn t : Inv rto s pre st dn t ->
  (N.of_nat (length (trs s)) <=? N.of_nat (length (filter (fun p => negb (existsb (N.eqb (fst p)) dn)) st)))%N = true.
Proof.
  intros [_ _ Htrs Hnd _ _ _ _ _]. apply N.leb_le.
  assert (Hle : (length (map t_id (trs s)) <= length (map fst (filter (fun p => negb (existsb (N.eqb (fst p)) dn)) st)))%nat).
  { apply NoDup_incl_length; [assumption|]. intros i Hi. destruct (ids_started _ _ _ _ _ _ Htrs Hi) as (C1 & C2).
    apply in_map_iff in C1 as (p & <- & Hp). apply in_map. apply filter_In. split; [assumption|].
    apply Bool.negb_true_iff. apply Bool.not_true_is_false. intros Hc. apply existsb_exists in Hc as (y & Hy & E).
    apply N.eqb_eq in E. subst y. contradiction. }
  rewrite !map_length in Hle. lia.
Qed.

Lemma all_acts_cons o r : all_acts (o :: r) = os_acts o ++ all_acts r.
Proof. reflexivity. Qed.

Lemma run_inv rto wr : forall h s pre st dn t, Inv rto s pre st dn t ->
  NoDup (starts h) -> (forall i, In i (starts h) -> ~ In i (map fst st)) ->
  Forall (acond rto (pre ++ all_acts (model_steps rto wr s h))) (pre ++ all_acts (model_steps rto wr s h)) /\
  NoDup (result_ids (pre ++ all_acts (model_steps rto wr s h))) /\
  holds_from rto t st dn (model_steps rto wr s h) = true.
Proof.
  induction h as [|e h IH]; intros s pre st dn t HI Hnd Hfr; cbn [model_steps].
  - cbn [all_acts flat_map]. rewrite app_nil_r. destruct HI. auto.
  - destruct (step rto wr s e) as [s' a] eqn:Hs.
    assert (Hef : efresh e st).
    { destruct e; cbn; auto. apply Hfr. cbn. left. reflexivity. }
    destruct (step_inv rto wr _ _ _ _ _ _ _ _ HI Hef Hs) as (HI' & Hok & Hcl).
    assert (Hnd' : NoDup (starts h)).
    { unfold starts in *. cbn [flat_map] in Hnd. destruct e; cbn in Hnd; try assumption. inversion Hnd; assumption. }
    assert (Hfr' : forall i, In i (starts h) -> ~ In i (map fst (started' e st))).
    { intros i Hi. unfold starts in *. cbn [flat_map] in Hnd, Hfr. destruct e as [id ign| | |]; cbn [started' app] in *;
        try (apply Hfr; assumption).
      cbn. intros [E|Hc].
      - subst. inversion Hnd; subst. contradiction.
      - revert Hc. apply Hfr. right. assumption. }
    destruct (IH s' (pre ++ a) _ _ _ HI' Hnd' Hfr') as (J1 & J2 & J3).
    rewrite all_acts_cons. cbn [os_acts]. rewrite app_assoc. split; [assumption|]. split; [assumption|].
    rewrite holds_from_cons, Hok, J3, (inv_size _ _ _ _ _ _ HI'). cbn.
    destruct e; try reflexivity. rewrite (Hcl eq_refl). reflexivity.
Qed.

Lemma nodupN_true l : NoDup l -> nodupN l = true.
Proof. induction 1 as [|x l Hn Hl IH]; [reflexivity|]. cbn. rewrite IH, Bool.andb_true_r. apply Bool.negb_true_iff.
  apply Bool.not_true_is_false. intros Hc. apply existsb_exists in Hc as (y & Hy & E). apply N.eqb_eq in E. subst. contradiction. Qed.

Lemma init_inv rto : Inv rto init [] [] [] 0.
Proof. constructor; cbn; [reflexivity|constructor|constructor|constructor|constructor|intros ? []|intros ? ? ? []|intros ? []|constructor]. Qed.

(* THE THEOREM: on every trace of the model the whole C12 predicate holds *)
Theorem holds_on_model rto fail h : NoDup (starts h) -> holds (model_case rto fail h) = true.
Proof.
  intros Hnd. unfold holds, model_case, TC. cbn [c_steps c_rto].
  destruct (run_inv rto (wr_of fail) h init [] [] [] 0 (init_inv rto) Hnd ltac:(intros ? _ [])) as (J1 & J2 & J3).
  cbn [app] in J1, J2. rewrite J3, (nodupN_true _ J2). cbn [andb]. rewrite Bool.andb_true_r.
  apply forallb_forall. intros a Ha. rewrite Forall_forall in J1. specialize (J1 a Ha).
  destruct a as [i k t|i r t]; cbn in J1.
  - destruct J1 as (Hk & t0 & -> & ->). rewrite Z.eqb_refl, Bool.andb_true_r. apply Nat.ltb_lt. assumption.
  - destruct r; try reflexivity. destruct J1 as (t0 & -> & ->). apply Z.eqb_refl.
Qed.

(* and the model trace agrees with the model: the correspondence runner accepts it *)
Lemma action_eqb_refl a : action_eqb a a = true.
Proof. destruct a as [i k t|i r t]; cbn; rewrite N.eqb_refl, Z.eqb_refl, ?Nat.eqb_refl; [reflexivity|destruct r; reflexivity]. Qed.
Lemma mset_eqb_refl a : mset_eqb a a = true.
Proof. unfold mset_eqb. rewrite Nat.eqb_refl. apply forallb_forall. intros x _. apply Nat.eqb_refl. Qed.
Lemma agree_model rto wr : forall h s, agree_from rto wr s (model_steps rto wr s h) = true.
Proof. induction h as [|e h IH]; intros s; [reflexivity|]. cbn [model_steps]. destruct (step rto wr s e) as [s' a] eqn:Hs.
  unfold OS. cbn [agree_from os_ev os_acts os_size]. rewrite Hs, mset_eqb_refl, N.eqb_refl, IH. reflexivity. Qed.

Theorem run_model_case rto fail h : NoDup (starts h) -> C12Check.run (model_case rto fail h) = (true, true).
Proof. intros Hnd. unfold C12Check.run. rewrite holds_on_model by assumption. unfold model_case, TC. cbn [c_rto c_fail c_steps].
  rewrite agree_model. reflexivity. Qed.

(* non-vacuity: a history with a lost first write, a retransmission failure, a response, a full
   time-out and a Close satisfies the freshness hypothesis and exercises every result kind *)
Example trace_example :
  let h := [EStart 1 false; EStart 2 false; EStart 3 false; EStart 4 true; ETick 250000000; EResp 3; EResp 3;
            ETick 9000000000; EStart 5 false; EStart 6 false; EClose] in
  NoDup (starts h) /\
  result_ids (all_acts (c_steps (model_case 200000000 [(1%N, 0%nat); (2%N, 1%nat)] h))) = [1; 2; 3; 5; 6]%N.
Proof. cbv zeta. split; [repeat constructor; cbn; intuition discriminate|]. vm_compute. reflexivity. Qed.
