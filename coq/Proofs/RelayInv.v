(* Inductive invariants of Model/Relay.v: one allocation per 5-tuple, channel bindings one-to-one
   and in range, nothing vetoed or of the wrong family is ever installed. *)
From Turn Require Import Bytes ChanData Relay RelayBase.
From Coq Require Import ZifyN ZifyNat ZifyBool.
Open Scope Z_scope.

Definition alloc_ok (cfg : config) (a : alloc) : Prop :=
  NoDup (map p_ip (a_perms a)) /\
  NoDup (map c_num (a_chans a)) /\
  NoDup (map c_peer (a_chans a)) /\
  (forall c, In c (a_chans a) -> valid_chan (c_num c) = true) /\
  (forall i, In i (map p_ip (a_perms a)) ->
     cfg_policy cfg (a_client a) i = true /\ ip_matches_family i (a_fam a) = true) /\
  (forall p, In p (map c_peer (a_chans a)) ->
     cfg_policy cfg (a_client a) (ip p) = true /\ ip_matches_family (ip p) (a_fam a) = true).

Definition inv (cfg : config) (s : state) : Prop :=
  NoDup (map a_client (allocs s)) /\ Forall (alloc_ok cfg) (allocs s).

Ltac splits := repeat match goal with |- _ /\ _ => split end.

Ltac dmatch H :=
  match type of H with
  | context [match ?x with _ => _ end] => destruct x eqn:?
  end.

(* ---------- per-allocation operations ---------- *)
Lemma add_perm_ok cfg a i dl a' ev :
  alloc_ok cfg a -> cfg_policy cfg (a_client a) i = true -> ip_matches_family i (a_fam a) = true ->
  add_perm a i dl = (a', ev) -> alloc_ok cfg a' /\ a_client a' = a_client a /\ a_fam a' = a_fam a /\ a_chans a' = a_chans a
     /\ a_user a' = a_user a /\ a_relay a' = a_relay a /\ a_dl a' = a_dl a /\ a_proto a' = a_proto a.
Proof.
  intros (Hp & Hn & Hq & Hv & Hpp & Hcp) Hpol Hfam H. unfold add_perm in H. inversion H; subst; clear H. unfold alloc_ok. cbn.
  splits; auto.
  - apply upsert_perm_nodup; assumption.
  - intros j Hj. apply upsert_perm_ips in Hj as [->|Hj]; [split; assumption|apply Hpp; assumption].
Qed.

Lemma set_dl_ok cfg a dl : alloc_ok cfg a -> alloc_ok cfg (set_dl a dl).
Proof. intros H. exact H. Qed.

Lemma refresh_chan_ok cfg a n dl : alloc_ok cfg a -> alloc_ok cfg (set_chans a (refresh_chan n dl (a_chans a))).
Proof.
  intros (Hp & Hn & Hq & Hv & Hpp & Hcp). unfold alloc_ok. cbn.
  rewrite refresh_chan_nums, refresh_chan_peers. splits; auto.
  intros c Hc.
  assert (Hin : In (c_num c) (map c_num (refresh_chan n dl (a_chans a)))) by (apply in_map; assumption).
  rewrite refresh_chan_nums in Hin. apply in_map_iff in Hin as (c0 & E & Hc0). rewrite <- E. apply Hv; assumption.
Qed.

Lemma new_chan_ok cfg a n p dl :
  alloc_ok cfg a -> valid_chan n = true ->
  find_chan_num n (a_chans a) = None -> find_chan_peer p (a_chans a) = None ->
  cfg_policy cfg (a_client a) (ip p) = true -> ip_matches_family (ip p) (a_fam a) = true ->
  alloc_ok cfg (set_chans a (a_chans a ++ [{| c_num := n; c_peer := p; c_dl := dl |}])).
Proof.
  intros (Hp & Hn & Hq & Hv & Hpp & Hcp) Hval Hfn Hfp Hpol Hfam. unfold alloc_ok. cbn.
  rewrite !map_app. cbn. apply find_chan_num_none in Hfn. apply find_chan_peer_none in Hfp.
  splits; auto.
  - apply NoDup_app_single; assumption.
  - apply NoDup_app_single; assumption.
  - intros c Hc. apply in_app_iff in Hc as [Hc|[<-|[]]]; [apply Hv; assumption|assumption].
  - intros q Hq'. apply in_app_iff in Hq' as [Hq'|[<-|[]]]; [apply Hcp; assumption|split; assumption].
Qed.

Lemma tick_alloc_ok cfg t a a' ev : alloc_ok cfg a -> tick_alloc t a = (Some a', ev) ->
  alloc_ok cfg a' /\ a_client a' = a_client a.
Proof.
  intros (Hp & Hn & Hq & Hv & Hpp & Hcp). unfold tick_alloc. destruct (a_dl a <=? t); [discriminate|].
  intros H. inversion H; subst; clear H. split; [|reflexivity]. unfold alloc_ok. cbn. splits.
  - apply filter_map_nodup; assumption.
  - apply filter_map_nodup; assumption.
  - apply filter_map_nodup; assumption.
  - intros c Hc. apply filter_In in Hc as [Hc _]. apply Hv; assumption.
  - intros i Hi. apply filter_map_incl in Hi. apply Hpp; assumption.
  - intros q Hq'. apply filter_map_incl in Hq'. apply Hcp; assumption.
Qed.

Lemma tick_allocs_inv cfg t l l' ev :
  NoDup (map a_client l) -> Forall (alloc_ok cfg) l -> tick_allocs t l = (l', ev) ->
  NoDup (map a_client l') /\ Forall (alloc_ok cfg) l' /\ (forall c, In c (map a_client l') -> In c (map a_client l)).
Proof.
  revert l' ev. induction l as [|a l IH]; cbn; intros l' ev Hnd Hall H.
  - inversion H; subst. splits; auto.
  - inversion Hnd as [|? ? Hn Hd]; subst. inversion Hall as [|? ? Ha Hl]; subst.
    destruct (tick_alloc t a) as [oa e1] eqn:Ht. destruct (tick_allocs t l) as [r' e2] eqn:Hr.
    specialize (IH _ _ Hd Hl eq_refl) as (IH1 & IH2 & IH3).
    inversion H; subst; clear H. destruct oa as [a'|].
    + destruct (tick_alloc_ok _ _ _ _ _ Ha Ht) as [Hok Hc]. cbn. rewrite Hc. splits.
      * constructor; [|assumption]. intros Hin. apply Hn. apply IH3; assumption.
      * constructor; assumption.
      * intros c [E|Hin]; [left; assumption|right; apply IH3; assumption].
    + splits; auto.
Qed.

(* installing the peers of a checked CreatePermission *)
Lemma perm_check_none cfg a peers : perm_check cfg a peers = None ->
  forall p, In (PeerOk p) peers ->
    cfg_policy cfg (a_client a) (ip p) = true /\ ip_matches_family (ip p) (a_fam a) = true.
Proof.
  induction peers as [|q peers IH]; cbn; [tauto|]. destruct q as [q|]; [|discriminate].
  destruct (ip_matches_family (ip q) (a_fam a)) eqn:Hf; cbn; [|discriminate].
  destruct (cfg_policy cfg (a_client a) (ip q)) eqn:Hp; cbn; [|discriminate].
  intros H p [E|Hin]; [inversion E; subst; auto|apply IH; assumption].
Qed.

Lemma install_perms_ok cfg dl peers : forall a a' ev,
  alloc_ok cfg a ->
  (forall p, In (PeerOk p) peers -> cfg_policy cfg (a_client a) (ip p) = true /\ ip_matches_family (ip p) (a_fam a) = true) ->
  install_perms a dl peers = (a', ev) ->
  alloc_ok cfg a' /\ a_client a' = a_client a /\ a_fam a' = a_fam a /\ a_chans a' = a_chans a /\ a_user a' = a_user a
  /\ a_relay a' = a_relay a /\ a_dl a' = a_dl a /\ a_proto a' = a_proto a.
Proof.
  induction peers as [|q peers IH]; cbn [install_perms]; intros a a' ev Hok Hall H.
  - inversion H; subst. splits; auto.
  - destruct q as [q|].
    + destruct (add_perm a (ip q) dl) as [a1 e1] eqn:H1.
      destruct (install_perms a1 dl peers) as [a2 e2] eqn:H2. inversion H; subst; clear H.
      destruct (Hall q (or_introl eq_refl)) as [Hp Hf].
      destruct (add_perm_ok _ _ _ _ _ _ Hok Hp Hf H1) as (Hok1 & Hc1 & Hf1 & Hch1 & Hu1 & Hr1 & Hd1 & Hpr1).
      assert (Hall1 : forall p, In (PeerOk p) peers ->
                cfg_policy cfg (a_client a1) (ip p) = true /\ ip_matches_family (ip p) (a_fam a1) = true).
      { intros p Hin. rewrite Hc1, Hf1. apply Hall. right; assumption. }
      destruct (IH _ _ _ Hok1 Hall1 H2) as (Hok2 & Hc2 & Hf2 & Hch2 & Hu2 & Hr2 & Hd2 & Hpr2).
      splits; try congruence; try assumption.
    + apply IH in H; auto. intros p Hin. apply Hall. right; assumption.
Qed.

(* ---------- the handlers preserve the invariant ---------- *)
Lemma owned_alloc_some s src uid a : owned_alloc s src uid = Some a ->
  In a (allocs s) /\ a_client a = src /\ a_user a = uid.
Proof.
  unfold owned_alloc. destruct (find_alloc src (allocs s)) as [x|] eqn:Hf; [|discriminate].
  destruct (N.eqb_spec (a_user x) uid); [|discriminate]. intros H; inversion H; subst.
  apply find_alloc_some in Hf as [? ?]. auto.
Qed.

Lemma inv_replace cfg s a a' : inv cfg s -> In a (allocs s) -> a_client a' = a_client a -> alloc_ok cfg a' ->
  inv cfg (set_allocs s (replace_alloc a' (allocs s))).
Proof.
  intros [Hnd Hall] Hin Hc Hok. split; cbn.
  - rewrite replace_alloc_clients. assumption.
  - apply Forall_replace_alloc; assumption.
Qed.

Lemma inv_remove cfg s c : inv cfg s -> inv cfg (set_allocs s (remove_alloc c (allocs s))).
Proof. intros [Hnd Hall]. split; cbn; [apply remove_alloc_nodup|apply Forall_remove_alloc]; assumption. Qed.

Lemma h_allocate_inv cfg s src tid uid realm tr lt fam df rp ep rt mt s' acts :
  inv cfg s -> h_allocate cfg s src tid uid realm tr lt fam df rp ep rt mt = (s', acts) -> inv cfg s'.
Proof.
  intros Hinv H. unfold h_allocate in H.
  destruct (find_alloc src (allocs s)) as [a|] eqn:Hf.
  - destruct (a_tid a =? tid)%N; inversion H; subst; assumption.
  - repeat (dmatch H; try (inversion H; subst; assumption)).
    all: inversion H; subst; clear H; destruct Hinv as [Hnd Hall]; split; cbn.
    all: try (rewrite map_app; cbn; apply NoDup_app_single; [assumption|]; apply find_alloc_none; assumption).
    all: apply Forall_app; split; [assumption|]; constructor; [|constructor].
    all: unfold alloc_ok; cbn; splits; try apply NoDup_nil; intros ? [].
Qed.

Lemma h_refresh_inv cfg s src tid uid lt fam s' acts :
  inv cfg s -> h_refresh cfg s src tid uid lt fam = (s', acts) -> inv cfg s'.
Proof.
  intros Hinv H. unfold h_refresh in H.
  destruct (owned_alloc s src uid) as [a|] eqn:Ho; [|inversion H; subst; assumption].
  apply owned_alloc_some in Ho as (Hin & Hc & Hu).
  assert (Hok : alloc_ok cfg a) by (destruct Hinv as [_ Hall]; rewrite Forall_forall in Hall; auto).
  repeat (dmatch H; try (inversion H; subst; first [assumption | apply inv_remove; assumption
            | eapply inv_replace; eauto])).
Qed.

Lemma h_create_perm_inv cfg s src tid uid peers s' acts :
  inv cfg s -> h_create_perm cfg s src tid uid peers = (s', acts) -> inv cfg s'.
Proof.
  intros Hinv H. unfold h_create_perm in H.
  destruct (owned_alloc s src uid) as [a|] eqn:Ho; [|inversion H; subst; assumption].
  apply owned_alloc_some in Ho as (Hin & Hc & Hu).
  assert (Hok : alloc_ok cfg a) by (destruct Hinv as [_ Hall]; rewrite Forall_forall in Hall; auto).
  destruct (perm_check cfg a peers) eqn:Hpc; [inversion H; subst; assumption|].
  destruct peers as [|q peers]; [inversion H; subst; assumption|].
  destruct (install_perms a (now s + cfg_perm_timeout cfg) (q :: peers)) as [a' evs] eqn:Hi.
  inversion H; subst; clear H.
  destruct (install_perms_ok _ _ _ _ _ _ Hok (perm_check_none _ _ _ Hpc) Hi) as (Hok' & Hc' & _).
  eapply inv_replace; eauto.
Qed.

Lemma h_channel_bind_inv cfg s src tid uid num peer s' acts :
  inv cfg s -> h_channel_bind cfg s src tid uid num peer = (s', acts) -> inv cfg s'.
Proof.
  intros Hinv H. unfold h_channel_bind in H.
  destruct (owned_alloc s src uid) as [a|] eqn:Ho; [|inversion H; subst; assumption].
  apply owned_alloc_some in Ho as (Hin & Hc & Hu).
  assert (Hok : alloc_ok cfg a) by (destruct Hinv as [_ Hall]; rewrite Forall_forall in Hall; auto).
  destruct num as [| |n]; try (inversion H; subst; assumption).
  destruct peer as [[p|]|]; try (inversion H; subst; assumption).
  destruct (valid_chan n) eqn:Hv; cbn [negb] in H; [|inversion H; subst; assumption].
  destruct (ip_matches_family (ip p) (a_fam a)) eqn:Hfam; cbn [negb] in H; [|inversion H; subst; assumption].
  destruct (cfg_policy cfg src (ip p)) eqn:Hpol; cbn [negb] in H; [|inversion H; subst; assumption].
  destruct (find_chan_peer p (a_chans a)) as [c1|] eqn:Hfp.
  - destruct (N.eqb_spec (c_num c1) n) as [En|En]; cbn [negb] in H; [|inversion H; subst; assumption].
    apply find_chan_peer_some in Hfp as [Hc1 Hp1].
    destruct (find_chan_num n (a_chans a)) as [c2|] eqn:Hfn.
    + destruct (addr_eqb (c_peer c2) p) eqn:Ep; cbn [negb] in H; [|inversion H; subst; assumption].
      apply addr_eqb_eq in Ep.
      destruct (add_perm _ _ _) as [a2 e2] eqn:Ha2 in H. inversion H; subst s' acts; clear H.
      pose proof (refresh_chan_ok cfg a n (now s + cfg_chan_timeout cfg) Hok) as Hok1.
      eapply add_perm_ok in Ha2 as (Hok2 & Hc2 & _); [| exact Hok1 | cbn; rewrite Hc, Ep; exact Hpol | cbn; rewrite Ep; exact Hfam].
      eapply inv_replace; eauto.
    + exfalso. apply find_chan_num_none in Hfn. apply Hfn. rewrite <- En. apply in_map. assumption.
  - destruct (find_chan_num n (a_chans a)) as [c2|] eqn:Hfn.
    + destruct (addr_eqb (c_peer c2) p) eqn:Ep; cbn [negb] in H; [|inversion H; subst; assumption].
      exfalso. apply addr_eqb_eq in Ep. apply find_chan_num_some in Hfn as [Hc2 _].
      apply find_chan_peer_none in Hfp. apply Hfp. rewrite <- Ep. apply in_map. assumption.
    + destruct (add_perm _ _ _) as [a2 e2] eqn:Ha2 in H. inversion H; subst s' acts; clear H.
      assert (Hok1 := new_chan_ok cfg a n p (now s + cfg_chan_timeout cfg) Hok Hv Hfn Hfp).
      rewrite Hc in Hok1. specialize (Hok1 Hpol Hfam).
      eapply add_perm_ok in Ha2 as (Hok2 & Hc2 & _); [| exact Hok1 | cbn; rewrite Hc; exact Hpol | cbn; exact Hfam].
      eapply inv_replace; eauto.
Qed.

Lemma h_tick_inv cfg s dt s' acts : inv cfg s -> h_tick s dt = (s', acts) -> inv cfg s'.
Proof.
  intros [Hnd Hall] H. unfold h_tick in H.
  destruct (tick_allocs (now s + Z.max 0 dt) (allocs s)) as [l evs] eqn:Ht. inversion H; subst; clear H.
  destruct (tick_allocs_inv _ _ _ _ _ Hnd Hall Ht) as (H1 & H2 & _). split; assumption.
Qed.

Lemma h_relay_err_inv cfg s r s' acts : inv cfg s -> h_relay_err s r = (s', acts) -> inv cfg s'.
Proof.
  intros Hinv H. unfold h_relay_err in H. destruct (find_relay r (allocs s)); inversion H; subst;
    [apply inv_remove|]; assumption.
Qed.

Lemma h_ctl_close_inv cfg s r s' acts : inv cfg s -> h_ctl_close s r = (s', acts) -> inv cfg s'.
Proof.
  intros Hinv H. unfold h_ctl_close in H. destruct (find_alloc r (allocs s)); inversion H; subst;
    [apply inv_remove|]; assumption.
Qed.
Lemma h_srv_close_inv cfg s s' acts : inv cfg s -> h_srv_close s = (s', acts) -> inv cfg s'.
Proof. intros _ H. inversion H; subst. split; cbn; constructor. Qed.

Lemma state_unchanged_cases {A} (s s' : state) (acts acts' : A) : (s, acts) = (s', acts') -> s' = s.
Proof. intros H; inversion H; reflexivity. Qed.

Theorem inv_step cfg s e s' acts : inv cfg s -> step cfg s e = (s', acts) -> inv cfg s'.
Proof.
  intros Hinv H. destruct e as [src tid c r unk|src p d|src n d|relay from d|dt|relay|csrc| |]; cbn [step] in H.
  - destruct unk; [inversion H; subst; assumption|].
    destruct r as [tr lt fam df rp|lt fam|peers|n p|]; try (inversion H; subst; assumption);
      destruct (authenticate cfg s c) as [uid|code ch]; try (inversion H; subst; assumption).
    + eapply h_allocate_inv; eauto.
    + eapply h_refresh_inv; eauto.
    + eapply h_create_perm_inv; eauto.
    + eapply h_channel_bind_inv; eauto.
  - unfold h_send in H. repeat (dmatch H; try (inversion H; subst; assumption)).
  - unfold h_chandata in H. repeat (dmatch H; try (inversion H; subst; assumption)).
  - unfold h_peer in H. repeat (dmatch H; try (inversion H; subst; assumption)).
  - eapply h_tick_inv; eauto.
  - eapply h_relay_err_inv; eauto.
  - eapply h_ctl_close_inv; eauto.
  - eapply h_srv_close_inv; eauto.
  - inversion H; subst; assumption.
Qed.

Lemma inv_init cfg ep : inv cfg (init ep).
Proof. split; cbn; constructor. Qed.

Theorem inv_run cfg h : forall s, inv cfg s -> inv cfg (final cfg s h).
Proof.
  induction h as [|e h IH]; intros s Hinv; [exact Hinv|]. unfold final. cbn [run].
  destruct (step cfg s e) as [s1 a] eqn:Hs. destruct (run cfg s1 h) as [s2 as_] eqn:Hr. cbn.
  specialize (IH s1 (inv_step _ _ _ _ _ Hinv Hs)). unfold final in IH. rewrite Hr in IH. exact IH.
Qed.

Corollary inv_reachable cfg ep h : inv cfg (final cfg (init ep) h).
Proof. apply inv_run, inv_init. Qed.
