From Turn Require Import Bytes KeepAlive.
From Coq Require Import ZifyN ZifyNat ZifyBool.
Open Scope Z_scope.

(* the invariant: the next handler starts no later than a + H + P *)
Lemma arm_times_gaps P H T : 0 <= P -> 0 <= H -> P + 2 * H < T ->
  forall cs a next, Forall (cycle_ok H) cs -> a <= next <= a + H + P -> gaps_below T (arm_times P a next cs).
Proof.
  intros HP HH HT. induction cs as [|c cs IH]; intros a next Hcs Hinv; cbn [arm_times gaps_below]; [exact I|].
  inversion Hcs as [|? ? (Hoff & Hh) Hr]; subst.
  destruct cs as [|c2 cs'].
  - cbn [arm_times gaps_below]. split; [lia|exact I].
  - specialize (IH (next + c_off c) (next + c_h c + P) Hr ltac:(lia)).
    cbn [arm_times] in IH |- *. cbn [gaps_below]. split; [lia|]. exact IH.
Qed.

(* for every number of cycles, every handler duration in [0,H], every processing instant inside the
   handler: no deadline is ever reached, provided interval + 2 x (longest handler) < timeout *)
Theorem keepalive_never_expires P H T a0 s0 cs :
  0 <= P -> 0 <= H -> P + 2 * H < T ->
  a0 <= s0 <= a0 + H ->                       (* the driver is started at most one handler-time after the state was created *)
  Forall (cycle_ok H) cs -> gaps_below T (arm_times P a0 (s0 + P) cs).
Proof. intros HP HH HT Hs Hcs. apply (arm_times_gaps P H T); auto. lia. Qed.

(* the defaults satisfy the side condition: allocation (refresh every lifetime/2 = 5 min vs 10 min), permissions
   (every 2 min vs 5 min), channel bindings (checked every 30 s, refreshed when older than 5 min, vs 10 min) *)
Theorem defaults_compatible :
  300 * s + 2 * handler_max < 600 * s /\ 120 * s + 2 * handler_max < 300 * s /\ (300 * s + 30 * s) + 2 * handler_max < 600 * s.
Proof. unfold s, handler_max, tx_max. lia. Qed.

(* and the bound is tight in the obvious direction: with interval >= timeout the state does expire *)
Theorem too_slow_expires P T a0 : T <= P -> 0 < T ->
  ~ gaps_below T (arm_times P a0 (a0 + P) [{| c_h := 0; c_off := 0 |}]).
Proof. intros H1 H2. cbn. lia. Qed.

Lemma gaps_belowb_spec T l : gaps_belowb T l = true <-> gaps_below T l.
Proof.
  induction l as [|a [|b r] IH]; cbn [gaps_belowb gaps_below]; try tauto.
  rewrite andb_true_iff, Z.ltb_lt, IH. tauto.
Qed.
