(* C15 under a slow lifecycle callback: the forced schedules of Allocation.AddPermission / AddChannelBind / Close and timer
   expiries (threads parked inside the Created callbacks, harness/allocation/c18_test.go) judged on their observations alone:
   if, at the moment the allocation starts to close, every AddPermission / AddChannelBind call has already reached its
   callback or returned - the teardown cause is injected after a step or during a slow callback, as C15's quantifier says,
   not in the middle of a call that has not yet published anything - then once every call has returned nothing the
   allocation owned remains (no published permission, no published channel) and every Created callback has had its Deleted.
   The schedules are compared with Model/Teardown.v under the step orders extracted from the source (as in C18's check).
   The part about what remains published (maps_left) is proved to hold on every macro trace of the model
   (Proofs/TeardownMacro.v, Properties/C15.v); the pairing of Created and Deleted callbacks (pairs_left) is evaluated on
   the real code's schedules only - partial. *)
From Turn Require Export Bytes Teardown Common RelayCheck C18Check.
Open Scope N_scope.

(* the step orders the translator extracted from AddPermission / AddChannelBind (as in C18's TD cases), the threads, the
   forced schedule with what was seen *)
Inductive case := TDO (ordp ordc : list Teardown.step) (threads : list thread) (ops : list (mop * obs)).

Definition is_closer (t : thread) : bool :=
  match t with TClose0 | TClosePS | TCloseP _ _ | TCloseCS | TCloseC _ _ => true | _ => false end.
Definition runs (o : mop) : list nat := match o with MRun i => [i] | MRunB i js => i :: js | _ => [] end.
Definition closer_idx (threads : list thread) : list nat :=
  map fst (filter (fun p => is_closer (snd p)) (combine (seq 0 (length threads)) threads)).
Definition adder_idx (threads : list thread) : list nat :=
  map fst (filter (fun p => negb (is_closer (snd p))) (combine (seq 0 (length threads)) threads)).

(* statuses before each operation *)
Fixpoint with_before (prev : list status) (ops : list (mop * obs)) : list (list status * mop * obs) :=
  match ops with [] => [] | (o, ob) :: r => (prev, o, ob) :: with_before (o_status ob) r end.

Definition settled (s : status) : bool := match s with SParked | SDone => true | _ => false end.

Definition premise (threads : list thread) (ops : list (mop * obs)) : bool :=
  let cl := closer_idx threads in
  match find (fun x => existsb (fun i => existsb (Nat.eqb i) cl) (runs (snd (fst x))))
             (with_before (map (fun _ => SNew) threads) ops) with
  | Some (before, _, _) => forallb (fun i => settled (nth i before SNew)) (adder_idx threads)
  | None => false
  end.

Definition created_keys (l : list ev) : list N :=
  flat_map (fun e => match e with EvPermCreated _ | EvChanCreated _ => [ev_key e] | _ => [] end) l.
Definition deleted_keys (l : list ev) : list N :=
  flat_map (fun e => match e with EvPermDeleted _ | EvChanDeleted _ => [ev_key e - 1] | _ => [] end) l.

Definition all_done (st : list status) : bool := forallb (fun s => match s with SDone => true | _ => false end) st.

(* once every call has returned and the allocation is closed: no published permission, no published channel ... *)
Definition maps_left (ops : list (mop * obs)) : bool :=
  match rev ops with
  | [] => true
  | (_, ob) :: _ =>
      if all_done (o_status ob) && o_closed ob then
        match o_perms ob with [] => true | _ => false end && match o_chans ob with Some [] => true | _ => false end
      else true
  end.
(* ... and every Created callback has had its Deleted *)
Definition pairs_left (ops : list (mop * obs)) : bool :=
  match rev ops with
  | [] => true
  | (_, ob) :: _ =>
      if all_done (o_status ob) && o_closed ob then
        let evs := flat_map (fun p => o_events (snd p)) ops in mset_eqb N.eqb (created_keys evs) (deleted_keys evs)
      else true
  end.
Definition nothing_left (ops : list (mop * obs)) : bool := maps_left ops && pairs_left ops.

Definition maps_holds (threads : list thread) (ops : list (mop * obs)) : bool :=
  if premise threads ops then maps_left ops else true.
Definition holds (c : case) : bool :=
  match c with TDO _ _ threads ops => if premise threads ops then nothing_left ops else true end.

(* correspondence: the schedule is one the model reproduces observation for observation under the extracted step orders
   (as for C18), and those orders satisfy the two conditions of the theorems (no crash: orders_ok; nothing left to publish
   once inside a callback: callbacks_last) *)
Definition run (c : case) : verdict :=
  (match c with
   | TDO ordp ordc threads ops =>
       forallb initial threads && orders_ok ordp ordc && callbacks_last ordp ordc &&
       agree_from ordp ordc ((Teardown.init, threads), map (fun _ => SNew) threads) ops
   end, holds c).
Definition bad_cases (base : N) (cs : list case) := bad_from run base cs.
Definition diagnose (c : case) :=
  match c with
  | TDO ordp ordc threads ops =>
      (orders_ok ordp ordc, callbacks_last ordp ordc, premise threads ops, maps_left ops, pairs_left ops,
       diag_from ordp ordc ((Teardown.init, threads), map (fun _ => SNew) threads) ops 0)
  end.
