(* Correspondence runner for C06 on the Relay model: agreement of model and implementation step by
   step, and the property predicate chk_C06 evaluated on the implementation's observed trace. *)
From Turn Require Export RelayProps.
Definition case := rcase.
Definition chk := chk_C06.
Definition bad_cases (base : N) (cs : list case) := bad_from (run_with chk) base cs.
