(* Correspondence runner for C03 on the Relay model: agreement of model and implementation step by
   step, and the property predicate chk_C03 evaluated on the implementation's observed trace. *)
From Turn Require Export RelayProps.
Definition case := rcase.
Definition chk := chk_C03.
Definition bad_cases (base : N) (cs : list case) := bad_from (run_with chk) base cs.
