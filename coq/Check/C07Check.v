(* Correspondence runner for C07 on the Relay model: agreement of model and implementation step by
   step, and the property predicate (chk_C07 and the forwarding clause) evaluated on the implementation's observed trace. *)
From Turn Require Export RelayProps.
Definition case := rcase.
(* chk_C07: what exists is exactly what has not timed out (tables reconstructed from the success responses);
   chk_C05_live: "until then the entry always authorises relaying" - whenever a permission / channel binding is present
   before the event (and the allocation is a UDP one and the datagram fits) the datagram IS forwarded, exactly once *)
Definition chk (c : rcase) : bool := chk_C07 c && chk_C05_live (rc_cfg c) [] [] (rc_steps c).
Definition bad_cases (base : N) (cs : list case) := bad_from (run_with chk) base cs.
