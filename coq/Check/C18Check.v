(* Correspondence runner for C18 (teardown part): forced schedules of Allocation.AddPermission / AddChannelBind /
   Close and timer expiries, run on the real code by harness/allocation/c18_test.go, against Model/Teardown.v.

   A schedule is a list of macro operations; each is a bounded run of small steps of the model (so every
   macro schedule IS one of the interleavings the theorem teardown_safe quantifies over):
     MRun i   thread i runs until it is inside a lifecycle callback (parked), or done, or blocked on
              channelBindingsLock
     MSleepP  virtual time passes the permission lifetime: every live permission timer fires
     MSleepC  ... and the channel lifetime: every live permission timer, then every live channel timer *)
From Turn Require Export Bytes Teardown Common.
Open Scope N_scope.

Inductive status := SNew | SDone | SParked | SBlocked.
(* MRunB i js: as MRun i, after which the threads js - blocked until then, and possibly released by what i did -
   run on by themselves *)
Inductive mop := MRun (i : nat) | MRunB (i : nat) (js : list nat) | MSleepP | MSleepC.

Definition status_eqb (a b : status) : bool :=
  match a, b with SNew, SNew | SDone, SDone | SParked, SParked | SBlocked, SBlocked => true | _, _ => false end.

Record obs := {
  o_perms : list (N * bool);            (* published permissions by peer, with "timer is non-nil" *)
  o_chans : option (list (N * bool));   (* published channels, None while channelBindingsLock is held *)
  o_closed : bool;
  o_events : list ev;                   (* callbacks fired during this operation, sorted *)
  o_status : list status }.
Definition OB := Build_obs.

Inductive case :=
| TD (ordp ordc : list step) (threads : list thread) (ops : list (mop * obs))
    (* teardown: the step orders extracted by the translator, the threads, the forced schedule with what was seen *)
| CL (nops : N) (all_returned table_empty : bool).
    (* client transaction machinery under a slow PacketConn.WriteTo: did every call return, is the table empty *)

Section Run.
  Variable ordp ordc : list step.

  Definition blockedb (s : state) (t : thread) : bool :=
    match t with
    | TRun _ p c _ _ _ => match next p c with Some (CLock, _, _) => chlock s | _ => false end
    | TAddChan _ | TCloseCS => chlock s
    | TCloseC (_ :: _) None => chlock s
    | _ => false
    end.

  Definition at_cb (t : thread) : bool :=
    match t with
    | TRun _ p c _ _ _ => match next p c with Some (PCallback, _, _) | Some (CCallback, _, _) => true | _ => false end
    | _ => false
    end.

  Fixpoint mrun (fuel : nat) (i : nat) (w : world) : world * status :=
    match fuel with
    | O => (w, SBlocked)
    | S f =>
        if crashed (fst w) then (w, SDone) else
        match nth_error (snd w) i with
        | None | Some TDone => (w, SDone)
        | Some t =>
            if blockedb (fst w) t then (w, SBlocked)
            else let w' := wstep ordp ordc w (Run i) in
                 if at_cb t then (w', SParked) else mrun f i w'
        end
    end.

  Definition fire_all_p (w : world) : world :=
    fold_left (fun w pa => wstep ordp ordc w (FireP (fst pa))) (rev (parmed (fst w))) w.
  Definition fire_all_c (w : world) : world :=
    fold_left (fun w ca => wstep ordp ordc w (FireC (fst ca))) (rev (carmed (fst w))) w.

  Fixpoint set_nth {A} (i : nat) (x : A) (l : list A) : list A :=
    match l, i with [], _ => [] | _ :: r, O => x :: r | y :: r, S i' => y :: set_nth i' x r end.

  Definition mstep (ws : world * list status) (o : mop) : world * list status :=
    let (w, st) := ws in
    match o with
    | MRun i => let (w', s) := mrun 200 i w in (w', set_nth i s st)
    | MRunB i js =>
        fold_left (fun (ws : world * list status) j => let (w', s) := mrun 200 j (fst ws) in (w', set_nth j s (snd ws)))
                  (i :: js) (w, st)
    | MSleepP => (fire_all_p w, st)
    | MSleepC => (fire_all_c (fire_all_p w), st)
    end.
End Run.

(* ---------- observation of the model ---------- *)
Definition ev_key (e : ev) : N :=
  match e with
  | EvPermCreated a => a * 4 | EvPermDeleted a => a * 4 + 1 | EvChanCreated a => a * 4 + 2 | EvChanDeleted a => a * 4 + 3
  end.

Fixpoint insert_by {A} (key : A -> N) (x : A) (l : list A) : list A :=
  match l with [] => [x] | y :: r => if key x <=? key y then x :: l else y :: insert_by key x r end.
Definition sort_by {A} (key : A -> N) (l : list A) : list A := fold_right (insert_by key) [] l.

Definition model_obs (before : state) (w : world) (st : list status) : obs :=
  let s := fst w in
  {| o_perms := sort_by fst (map (fun ap => (fst ap, has_id (snd ap) (parmed s))) (pmap s));
     o_chans := if chlock s then None else Some (sort_by fst (map (fun ac => (fst ac, has_id (snd ac) (carmed s))) (cmap s)));
     o_closed := closed s;
     o_events := sort_by ev_key (firstn (length (evs s) - length (evs before)) (evs s));
     o_status := st |}.

Definition pb_eqb (a b : N * bool) : bool := (fst a =? fst b) && Bool.eqb (snd a) (snd b).
Fixpoint list_eqb {A} (eqb : A -> A -> bool) (a b : list A) : bool :=
  match a, b with [], [] => true | x :: a', y :: b' => eqb x y && list_eqb eqb a' b' | _, _ => false end.
Definition obs_eqb (a b : obs) : bool :=
  list_eqb pb_eqb (o_perms a) (o_perms b) &&
  match o_chans a, o_chans b with
  | None, None => true | Some x, Some y => list_eqb pb_eqb x y | _, _ => false end &&
  Bool.eqb (o_closed a) (o_closed b) &&
  list_eqb (fun x y => ev_key x =? ev_key y) (o_events a) (o_events b) &&
  list_eqb status_eqb (o_status a) (o_status b).

Fixpoint agree_from (ordp ordc : list step) (ws : world * list status) (ops : list (mop * obs)) : bool :=
  match ops with
  | [] => true
  | (o, ob) :: r =>
      let ws' := mstep ordp ordc ws o in
      negb (crashed (fst (fst ws'))) &&
      obs_eqb (model_obs (fst (fst ws)) (fst ws') (snd ws')) ob && agree_from ordp ordc ws' r
  end.

(* ---------- the property on the observations alone ---------- *)
(* whenever the harness looked (every thread parked, blocked or done): every published permission has its
   timer, every published channel has its timer when the lock is free; and at the end of the schedule no
   thread is left blocked or parked (no lock-up) *)
Definition obs_ok (ob : obs) : bool :=
  forallb (fun p => snd p) (o_perms ob) &&
  match o_chans ob with Some l => forallb (fun p => snd p) l | None => true end.

Definition final_ok (ops : list (mop * obs)) : bool :=
  match rev ops with
  | [] => true
  | (_, ob) :: _ => forallb (fun s => match s with SDone | SNew => true | _ => false end) (o_status ob) &&
                    match o_chans ob with Some _ => true | None => false end
  end.

Definition holds (c : case) : bool :=
  match c with
  | TD _ _ _ ops => forallb (fun p => obs_ok (snd p)) ops && final_ok ops
  | CL _ ret empty => ret && empty
  end.

Definition run (c : case) : verdict :=
  (match c with
   | TD ordp ordc threads ops =>
       forallb (initial) threads && agree_from ordp ordc ((init, threads), map (fun _ => SNew) threads) ops
   | CL _ _ _ => true
   end, holds c).

Definition bad_cases (base : N) (cs : list case) := bad_from run base cs.

(* for the harness developer: the first operation at which model and implementation differ *)
Fixpoint diag_from (ordp ordc : list step) (ws : world * list status) (ops : list (mop * obs)) (i : N) : option (N * mop * obs * obs) :=
  match ops with
  | [] => None
  | (o, ob) :: r =>
      let ws' := mstep ordp ordc ws o in
      let mo := model_obs (fst (fst ws)) (fst ws') (snd ws') in
      if negb (crashed (fst (fst ws'))) && obs_eqb mo ob then diag_from ordp ordc ws' r (i + 1) else Some (i, o, mo, ob)
  end.
Definition diagnose (c : case) :=
  match c with
  | TD ordp ordc threads ops => diag_from ordp ordc ((init, threads), map (fun _ => SNew) threads) ops 0
  | CL _ _ _ => None
  end.
