(* Correspondence runner for C01 on the Relay model. *)
From Turn Require Export RelayCheck.
Definition case := rcase.
Definition chk (c : rcase) : bool := true.
Definition bad_cases (base : N) (cs : list case) := bad_from (run_with chk) base cs.
