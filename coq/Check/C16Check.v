(* Correspondence runner for C16: the RFC 6062 TCP relay part of the server against Model/TcpRelay.v. *)
From Turn Require Export Bytes Relay TcpRelay Common RelayCheck RelayProps.
Open Scope Z_scope.

Record tstep_obs := { ts_ev : tevent; ts_acts : list taction }.
Record case := { tc_steps : list tstep_obs }.
Definition TS := Build_tstep_obs.
Definition TC := Build_case.

Definition taction_eqb (a b : taction) : bool :=
  match a, b with
  | TSuccess d m t c, TSuccess d' m' t' c' => addr_eqb d d' && method_eqb m m' && (t =? t')%N && opt_eqb N.eqb c c'
  | TError d m t c, TError d' m' t' c' => addr_eqb d d' && method_eqb m m' && (t =? t')%N && (c =? c')%N
  | TBindSuccess d t c, TBindSuccess d' t' c' => (d =? d')%N && (t =? t')%N && (c =? c')%N
  | TBindError d t c, TBindError d' t' c' => (d =? d')%N && (t =? t')%N && (c =? c')%N
  | TAttempt d p c, TAttempt d' p' c' => addr_eqb d d' && addr_eqb p p' && (c =? c')%N
  | TPeerClosed r p, TPeerClosed r' p' => addr_eqb r r' && addr_eqb p p'
  | TDataClosed d, TDataClosed d' => (d =? d')%N
  | TDeliver c t d, TDeliver c' t' d' => (c =? c')%N && Bool.eqb t t' && beqb d d'
  | TBlocked, TBlocked => true
  | _, _ => false
  end.

Fixpoint agree_from (s : tstate) (steps : list tstep_obs) : bool :=
  match steps with
  | [] => true
  | o :: r => let '(s', a) := tstep s (ts_ev o) in mset_eqb taction_eqb a (ts_acts o) && agree_from s' r
  end.

(* ---- the property on the observed trace alone ---- *)
Record kst := { k_now : Z;
                k_users : list (addr * N);            (* allocation -> user *)
                k_perms : list (addr * N);            (* (client, ip) *)
                k_ann : list (N * (addr * Z));        (* announced cid -> (owning client, announced at) *)
                k_bound : list N;                     (* cids bound so far *)
                k_gone : list N;                      (* cids whose peer connection the server closed *)
                k_relays : list (addr * addr);        (* client -> relayed address *)
                k_open : list (N * (addr * addr * Z)) }.   (* unbound, still open: cid -> (client, peer, announced at) *)

Definition ann_get (k : N) (l : list (N * (addr * Z))) : option (addr * Z) :=
  match find (fun p => (fst p =? k)%N) l with Some p => Some (snd p) | None => None end.
Definition user_get (c : addr) (l : list (addr * N)) : option N :=
  match find (fun p => addr_eqb (fst p) c) l with Some p => Some (snd p) | None => None end.

(* ---- the pieces of one step of the trace predicate ---- *)
Definition k_time (st : kst) (e : tevent) : Z := k_now st + match e with TTick dt => Z.max 0 dt | _ => 0 end.
Definition k_noblock (acts : list taction) : bool :=
  negb (existsb (fun a => match a with TBlocked => true | _ => false end) acts).
(* new announcements *)
Definition k_anns (now' : Z) (e : tevent) (acts : list taction) : list (N * (addr * Z)) :=
  flat_map (fun a => match a, e with
                     | TSuccess _ MConnect _ (Some k), TConnect c _ _ _ _ _ _ => [(k, (c, now'))]
                     | TAttempt c _ k, _ => [(k, (c, now'))]
                     | _, _ => [] end) acts.
Definition k_fresh (st : kst) (anns : list (N * (addr * Z))) : bool :=
  forallb (fun p => match ann_get (fst p) (k_ann st) with None => true | Some _ => false end) anns
  && nodupb N.eqb (map fst anns).
(* inbound attempts only from permitted peers *)
Definition k_attempts (st : kst) (acts : list taction) : bool :=
  forallb (fun a => match a with
                    | TAttempt c p _ => existsb (fun q => addr_eqb (fst q) c && (snd q =? ip p)%N) (k_perms st)
                    | _ => true end) acts.
(* binds: the announced id, once, in time, by the owner's user *)
Definition k_binds (st : kst) (now' : Z) (e : tevent) (acts : list taction) : bool :=
  forallb (fun a => match a, e with
     | TBindSuccess _ _ k, TConnBind _ _ au (Some k') =>
         (k =? k')%N && negb (existsb (N.eqb k) (k_bound st)) && negb (existsb (N.eqb k) (k_gone st)) &&
         match ann_get k (k_ann st) with
         | Some (c, t0) => (now' <? t0 + bind_timeout) &&
                           match au, user_get c (k_users st) with Some u, Some u' => (u =? u')%N | _, _ => false end
         | None => false end
     | TBindSuccess _ _ _, _ => false
     | _, _ => true end) acts.
(* data only through bound pairs, and exactly what was written *)
Definition k_data (st : kst) (e : tevent) (acts : list taction) : bool :=
  forallb (fun a => match a, e with
     | TDeliver k toc d, TData k' fromc d' => (k =? k')%N && Bool.eqb toc (negb fromc) && beqb d d' && existsb (N.eqb k) (k_bound st)
     | TDeliver _ _ _, _ => false
     | _, _ => true end) acts.
(* unbound connections: opened by announcements, ended by a bind, by the server closing them, by the allocation ending *)
Definition k_relay_of (st : kst) (c : addr) : option addr :=
  match find (fun p => addr_eqb (fst p) c) (k_relays st) with Some p => Some (snd p) | None => None end.
Definition k_closed_here (st : kst) (acts : list taction) (e : N * (addr * addr * Z)) : bool :=
  existsb (fun a => match a with
                    | TPeerClosed r p => addr_eqb p (snd (fst (snd e))) && opt_eqb addr_eqb (k_relay_of st (fst (fst (snd e)))) (Some r)
                    | _ => false end) acts.
Definition k_open' (st : kst) (now' : Z) (e : tevent) (acts : list taction) : list (N * (addr * addr * Z)) :=
  let anns := k_anns now' e acts in
  let open1 := map (fun p => (fst p, (fst (snd p), match e with TConnect _ _ _ (Some pr) _ _ _ => pr | TPeerConn _ pr _ => pr | _ => fst (snd p) end, snd (snd p)))) anns
               ++ k_open st in
  let open2 := filter (fun x => negb (existsb (fun a => match a with TBindSuccess _ _ k => (k =? fst x)%N | _ => false end) acts)) open1 in
  let open3 := filter (fun x => negb (k_closed_here st acts x)) open2 in
  match e with TEnd c => filter (fun x => negb (addr_eqb (fst (fst (snd x))) c)) open3 | _ => open3 end.
(* the owner can bind a connection that is still open and unbound, within its 30 seconds *)
Definition k_owner_bind (st : kst) (now' : Z) (e : tevent) (acts : list taction) : bool :=
  match e with
  | TConnBind _ _ (Some u) (Some k) =>
      match find (fun x => (fst x =? k)%N) (k_open st) with
      | Some x => if opt_eqb N.eqb (user_get (fst (fst (snd x))) (k_users st)) (Some u) && (now' <? snd (snd x) + bind_timeout)
                  then existsb (fun a => match a with TBindSuccess _ _ k' => (k' =? k)%N | _ => false end) acts
                  else true
      | None => true end
  | _ => true end.
(* and after 30 seconds an unbound connection is gone *)
Definition k_deadline (now' : Z) (op : list (N * (addr * addr * Z))) : bool :=
  forallb (fun x => now' <? snd (snd x) + bind_timeout) op.
(* an Allocate that succeeds is reported once per allocation: a TAlloc for a client that still has one changes nothing
   (the model ignores it as well) *)
Definition k_state' (st : kst) (now' : Z) (e : tevent) (acts : list taction) : kst :=
  let known c := match user_get c (k_users st) with Some _ => true | None => false end in
  {| k_now := now';
     k_users := match e with
                | TAlloc c u _ => if known c then k_users st else (c, u) :: k_users st
                | TEnd c => filter (fun p => negb (addr_eqb (fst p) c)) (k_users st)
                | _ => k_users st end;
     k_perms := match e with TPerm c i => (c, i) :: k_perms st | TEnd c => filter (fun p => negb (addr_eqb (fst p) c)) (k_perms st) | _ => k_perms st end;
     k_ann := k_anns now' e acts ++ k_ann st;
     k_bound := flat_map (fun a => match a with TBindSuccess _ _ k => [k] | _ => [] end) acts ++ k_bound st;
     k_gone := k_gone st;
     k_relays := match e with
                 | TAlloc c _ r => if known c then k_relays st else (c, r) :: k_relays st
                 | TEnd c => filter (fun p => negb (addr_eqb (fst p) c)) (k_relays st)
                 | _ => k_relays st end;
     k_open := k_open' st now' e acts |}.

Definition k_step (st : kst) (o : tstep_obs) : bool * kst :=
  let now' := k_time st (ts_ev o) in
  let acts := ts_acts o in
  (k_noblock acts && k_fresh st (k_anns now' (ts_ev o) acts) && k_attempts st acts && k_binds st now' (ts_ev o) acts &&
   k_data st (ts_ev o) acts && k_owner_bind st now' (ts_ev o) acts && k_deadline now' (k_open' st now' (ts_ev o) acts),
   k_state' st now' (ts_ev o) acts).

Fixpoint holds_from (st : kst) (steps : list tstep_obs) : bool :=
  match steps with
  | [] => true
  | o :: r => let '(ok, st') := k_step st o in ok && holds_from st' r
  end.

(* "a second Connect to the same peer is answered 446": and only a second one - 446 is justified only by a connection
   this very allocation has had with that peer (cp: the (client, peer) pairs announced so far, per allocation) *)
Fixpoint dup_from (cp : list (addr * addr)) (steps : list tstep_obs) : bool :=
  match steps with
  | [] => true
  | o :: r =>
      let acts := ts_acts o in
      let ok := forallb (fun a => match a, ts_ev o with
                   | TError _ MConnect _ 446%N, TConnect c _ _ (Some pr) _ _ _ =>
                       existsb (fun e => addr_eqb (fst e) c && addr_eqb (snd e) pr) cp
                   | _, _ => true end) acts in
      let new := flat_map (fun a => match a, ts_ev o with
                   | TSuccess _ MConnect _ (Some _), TConnect c _ _ (Some pr) _ _ _ => [(c, pr)]
                   | TAttempt c p _, _ => [(c, p)]
                   | _, _ => [] end) acts in
      let cp' := match ts_ev o with TEnd c => filter (fun e => negb (addr_eqb (fst e) c)) cp | _ => cp end in
      ok && dup_from (new ++ cp') r
  end.

(* "copied to each other ... until either side closes": when one side of a bound pair closes, the server closes the other
   side (and the connection is gone: a later Connect to that peer is a new connection). Bookkeeping from the observations
   alone: c_la = announced (connection id, client), c_lb = ids bound and not yet ended (ended by a close of either side or by
   the end of an allocation the id was announced to) *)
Definition c_anns (e : tevent) (acts : list taction) : list (N * addr) :=
  flat_map (fun a => match a, e with
     | TSuccess _ MConnect _ (Some k), TConnect c _ _ _ _ _ _ => [(k, c)]
     | TAttempt c _ k, _ => [(k, c)]
     | _, _ => [] end) acts.
Definition c_binds (acts : list taction) : list N := flat_map (fun a => match a with TBindSuccess _ _ k => [k] | _ => [] end) acts.
Definition closes_other (cs : bool) (acts : list taction) : bool :=
  existsb (fun a => match a with TPeerClosed _ _ => cs | TDataClosed _ => negb cs | _ => false end) acts.
Record cst := { c_la : list (N * addr); c_lb : list N }.
Definition c_step (st : cst) (e : tevent) (acts : list taction) : bool * cst :=
  let la' := c_anns e acts ++ c_la st in
  match e with
  | TCloseSide k cs =>
      ((if existsb (N.eqb k) (c_lb st) then closes_other cs acts else true),
       {| c_la := la'; c_lb := filter (fun x => negb (x =? k)%N) (c_lb st) |})
  | TEnd c =>
      (true, {| c_la := la';
                c_lb := filter (fun k => negb (existsb (fun p => (fst p =? k)%N && addr_eqb (snd p) c) (c_la st))) (c_lb st) |})
  | _ => (true, {| c_la := la'; c_lb := c_binds acts ++ c_lb st |})
  end.
Fixpoint close_from (st : cst) (steps : list tstep_obs) : bool :=
  match steps with
  | [] => true
  | o :: r => fst (c_step st (ts_ev o) (ts_acts o)) && close_from (snd (c_step st (ts_ev o) (ts_acts o))) r
  end.
Definition c0 : cst := {| c_la := []; c_lb := [] |}.

Definition run (c : case) : verdict :=
  (agree_from tinit (tc_steps c),
   dup_from [] (tc_steps c) &&
   holds_from {| k_now := 0; k_users := []; k_perms := []; k_ann := []; k_bound := []; k_gone := []; k_relays := []; k_open := [] |} (tc_steps c) &&
   close_from c0 (tc_steps c)).
Definition bad_cases (base : N) (cs : list case) := bad_from run base cs.

Fixpoint diag_from (s : tstate) (i : N) (steps : list tstep_obs) : option (N * tevent * list taction * list taction) :=
  match steps with
  | [] => None
  | o :: r => let '(s', a) := tstep s (ts_ev o) in
              if mset_eqb taction_eqb a (ts_acts o) then diag_from s' (i + 1)%N r else Some (i, ts_ev o, a, ts_acts o)
  end.
Definition diagnose (c : case) := diag_from tinit 0%N (tc_steps c).
