(* Shared by the correspondence runners: byte-string descriptors written by the Go
   harness, and the generic "which cases disagree" fold. *)
From Turn Require Export Bytes.
Open Scope N_scope.

Inductive bdesc :=
| BRaw (l : bytes)
| BPat (len seed : N)
| BCat (a b : bdesc)
| BTrunc (len : N) (pre : bytes).   (* too long to write out and not a pattern: never equal *)

Fixpoint expand (d : bdesc) : option bytes :=
  match d with
  | BRaw l => Some l
  | BPat len seed => Some (pat len seed)
  | BCat a b => match expand a, expand b with Some x, Some y => Some (x ++ y) | _, _ => None end
  | BTrunc _ _ => None
  end.

Definition obeqb (o : option bytes) (b : bytes) : bool :=
  match o with Some x => beqb x b | None => false end.

(* verdict of one case: (agree with the model, property predicate holds on the implementation's output) *)
Definition verdict := (bool * bool)%type.

Section Bad.
  Context {case : Type} (run : case -> verdict).
  Fixpoint bad_from (i : N) (cs : list case) : list (N * bool * bool) :=
    match cs with
    | [] => []
    | c :: r =>
        let '(a, h) := run c in
        if a && h then bad_from (i + 1) r else (i, a, h) :: bad_from (i + 1) r
    end.
End Bad.
