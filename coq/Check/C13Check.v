(* Correspondence runner for C13: the client's relayed UDP socket against Model/ClientConn.v. *)
From Turn Require Export Bytes ChanData Relay ClientConn Common RelayCheck.
Open Scope Z_scope.

Record cobs := { co_ev : cevent; co_wire : list wire; co_ret : cret;
                 co_perms : list N; co_binds : list (addr * N * bstate) }.
Inductive case :=
| CC (cc_steps : list cobs)
(* n ConnectionAttempt indications handed to the TCP allocation while nobody accepts: how many were queued, did the call block *)
| KAttempts (n queued : N) (blocked : bool).
Definition CO := Build_cobs.
Definition attempt_cap : N := 10.

Definition bstate_eqb (a b : bstate) : bool :=
  match a, b with BIdle, BIdle | BRequest, BRequest | BUnknown, BUnknown | BReadyUnknown, BReadyUnknown
                | BReady, BReady | BRefresh, BRefresh | BFailed, BFailed => true | _, _ => false end.
Definition wire_eqb (a b : wire) : bool :=
  match a, b with
  | WCreatePerm x, WCreatePerm y => mset_eqb N.eqb x y
  | WChannelBind n p, WChannelBind n' p' => (n =? n')%N && addr_eqb p p'
  | WSend p d, WSend p' d' => addr_eqb p p' && beqb d d'
  | WChanData n d, WChanData n' d' => (n =? n')%N && beqb d d'
  | WRefresh0, WRefresh0 => true
  | _, _ => false
  end.
Definition cret_eqb (a b : cret) : bool :=
  match a, b with
  | RWrote n, RWrote n' => (n =? n')%N
  | RErrClosed, RErrClosed | RErrPerm, RErrPerm | RTimeout, RTimeout | RInErr, RInErr | RNone, RNone => true
  | RRead f d, RRead f' d' => addr_eqb f f' && beqb d d'
  | _, _ => false
  end.
Definition bind3_eqb (a b : addr * N * bstate) : bool :=
  let '(p, n, s) := a in let '(p', n', s') := b in addr_eqb p p' && (n =? n')%N && bstate_eqb s s'.

Fixpoint agree_from (s : cst) (steps : list cobs) : bool :=
  match steps with
  | [] => true
  | o :: r =>
      let '(s', out) := cstep s (co_ev o) in
      mset_eqb wire_eqb (o_wire out) (co_wire o) && cret_eqb (o_ret out) (co_ret o) &&
      mset_eqb N.eqb (k_perms s') (co_perms o) &&
      mset_eqb bind3_eqb (map (fun b => (b_peer b, b_num b, b_st b)) (k_binds s')) (co_binds o) &&
      agree_from s' r
  end.

(* ---- the property on the observed trace alone ---- *)
Record kst := { kp : list N;                       (* IPs for which a CreatePermission succeeded *)
                kc : list (N * addr);              (* (n, p) confirmed by a ChannelBind success *)
                kq : list (addr * bytes);          (* relayed payloads not read yet, with the peer they must be attributed to *)
                knums : list (addr * N) }.         (* number assigned to each peer, from the ChannelBind requests seen *)

(* ---- the pieces of one step of the trace predicate ---- *)
(* permissions that this step's successful CreatePermission establishes: the server granted one iff it answered success
   to a CreatePermission request that was really sent - the k-th request on the wire consumes the k-th scripted reaction *)
Definition k_nreq (w : list wire) : nat := length (filter (fun m => match m with WCreatePerm _ => true | _ => false end) w).
Definition k_newperms (e : cevent) (w : list wire) : list N :=
  match e with
  | CWrite p _ reacts =>
      if existsb (fun r => match r with POk => true | _ => false end) (firstn (k_nreq w) reacts) then [ip p] else []
  | _ => [] end.
Definition k_kc' (st : kst) (e : cevent) : list (N * addr) :=
  match e with
  | CBindReact p BOk =>
      match find (fun x => addr_eqb (fst x) p) (knums st) with Some x => (snd x, p) :: kc st | None => kc st end
  | _ => kc st end.
Definition k_knums' (st : kst) (w : list wire) : list (addr * N) :=
  flat_map (fun m => match m with WChannelBind n p => [(p, n)] | _ => [] end) w ++ knums st.
(* data leaves only toward permitted peers, ChannelData only on a confirmed binding, every peer its own number *)
Definition k_data (st : kst) (kp' : list N) (e : cevent) (w : list wire) : bool :=
  forallb (fun m => match m, e with
     | WSend p _, CWrite p' _ _ => addr_eqb p p' && existsb (N.eqb (ip p)) kp'
     | WChanData n _, CWrite p' _ _ => existsb (fun x => (fst x =? n)%N && addr_eqb (snd x) p') (kc st) && existsb (N.eqb (ip p')) kp'
     | WSend _ _, _ | WChanData _ _, _ => false
     | WChannelBind n p, _ => valid_chan n && forallb (fun x => Bool.eqb (addr_eqb (fst x) p) (snd x =? n)%N) (knums st)
     | _, _ => true end) w.
Definition k_payload (e : cevent) (w : list wire) : bool :=
  forallb (fun m => match m, e with
     | WSend _ d, CWrite _ d' _ | WChanData _ d, CWrite _ d' _ => beqb d d'
     | _, _ => true end) w.
(* what ReadFrom returns *)
Definition k_kq1 (st : kst) (e : cevent) (ret : cret) : list (addr * bytes) :=
  match e, ret with
  | CInData from d, _ => if (length (kq st) <? queue_cap)%nat then kq st ++ [(from, d)] else kq st
  | CInChan n d, RNone =>
      match find (fun x => (snd x =? n)%N) (knums st) with
      | Some x => if (length (kq st) <? queue_cap)%nat then kq st ++ [(fst x, d)] else kq st
      | None => kq st end
  | _, _ => kq st end.
Definition k_read (st : kst) (e : cevent) (ret : cret) : bool :=
  match e, ret with
  | CRead, RRead f d => match kq st with (f', d') :: _ => addr_eqb f f' && beqb d d' | [] => false end
  | CRead, _ => match kq st with [] => true | _ => false end
  | CInChan n _, RInErr => match find (fun x => (snd x =? n)%N) (knums st) with None => true | Some _ => false end
  | _, _ => true end.

Definition k_step (st : kst) (o : cobs) : bool * kst :=
  let w := co_wire o in
  let kp' := k_newperms (co_ev o) w ++ kp st in
  let kq1 := k_kq1 st (co_ev o) (co_ret o) in
  let kq' := match co_ev o, co_ret o with CRead, RRead _ _ => tl kq1 | _, _ => kq1 end in
  (k_data st kp' (co_ev o) w && k_payload (co_ev o) w && k_read st (co_ev o) (co_ret o),
   {| kp := kp'; kc := k_kc' st (co_ev o); kq := kq'; knums := k_knums' st w |}).

Fixpoint holds_from (st : kst) (steps : list cobs) : bool :=
  match steps with [] => true | o :: r => let '(ok, st') := k_step st o in ok && holds_from st' r end.

Definition run (c : case) : verdict :=
  match c with
  | CC steps => (agree_from cinit steps, holds_from {| kp := []; kc := []; kq := []; knums := [] |} steps)
  | KAttempts n queued blocked =>
      (* an absent acceptor never blocks the client's inbound path: the queue takes 10, the rest is dropped *)
      let ok := negb blocked && (queued =? N.min n attempt_cap)%N in (ok, negb blocked)
  end.
Definition bad_cases (base : N) (cs : list case) := bad_from run base cs.

Fixpoint diag_from (s : cst) (i : N) (steps : list cobs) : option (N * cevent * cout * list N * list (addr * N * bstate)) :=
  match steps with
  | [] => None
  | o :: r =>
      let '(s', out) := cstep s (co_ev o) in
      if mset_eqb wire_eqb (o_wire out) (co_wire o) && cret_eqb (o_ret out) (co_ret o) &&
         mset_eqb N.eqb (k_perms s') (co_perms o) &&
         mset_eqb bind3_eqb (map (fun b => (b_peer b, b_num b, b_st b)) (k_binds s')) (co_binds o)
      then diag_from s' (i + 1)%N r
      else Some (i, co_ev o, out, k_perms s', map (fun b => (b_peer b, b_num b, b_st b)) (k_binds s'))
  end.
Definition diagnose (c : case) := match c with CC steps => diag_from cinit 0%N steps | _ => None end.
