(* Correspondence runner for C12: the client's transaction layer against Model/ClientTx.v. *)
From Turn Require Export Bytes ClientTx Common.
Open Scope Z_scope.

Record ostep := { os_ev : event; os_acts : list action; os_size : N }.
Record case := { c_rto : Z; c_fail : list (N * nat); c_steps : list ostep }.
Definition OS := Build_ostep.
Definition TC := Build_case.

Definition wr_of (fail : list (N * nat)) (id : N) (k : nat) : bool :=
  negb (existsb (fun p => (fst p =? id)%N && Nat.eqb (snd p) k) fail).

Definition result_eqb (a b : result) : bool :=
  match a, b with ROk, ROk | RErrAllFailed, RErrAllFailed | RErrWrite, RErrWrite | RErrClosed, RErrClosed => true | _, _ => false end.
Definition action_eqb (a b : action) : bool :=
  match a, b with
  | Sent i k t, Sent i' k' t' => (i =? i')%N && Nat.eqb k k' && (t =? t')
  | Result i r t, Result i' r' t' => (i =? i')%N && result_eqb r r' && (t =? t')
  | _, _ => false
  end.
Definition count (x : action) (l : list action) : nat := length (filter (action_eqb x) l).
Definition mset_eqb (a b : list action) : bool :=
  Nat.eqb (length a) (length b) && forallb (fun x => Nat.eqb (count x a) (count x b)) a.

Fixpoint agree_from (rto : Z) (wr : N -> nat -> bool) (s : state) (steps : list ostep) : bool :=
  match steps with
  | [] => true
  | o :: r =>
      let '(s', a) := step rto wr s (os_ev o) in
      mset_eqb a (os_acts o) && (N.of_nat (length (trs s')) =? os_size o)%N && agree_from rto wr s' r
  end.

(* the property on the observed trace alone *)
Definition all_acts (steps : list ostep) : list action := flat_map os_acts steps.
Definition result_ids (l : list action) : list N := flat_map (fun a => match a with Result i _ _ => [i] | _ => [] end) l.
Fixpoint nodupN (l : list N) : bool := match l with [] => true | x :: r => negb (existsb (N.eqb x) r) && nodupN r end.

(* start instant of each transaction, from its Sent 0 *)
Definition start_of (id : N) (l : list action) : option Z :=
  match find (fun a => match a with Sent i 0%nat _ => (i =? id)%N | _ => false end) l with
  | Some (Sent _ _ t) => Some t | _ => None end.

Fixpoint holds_from (rto : Z) (t : Z) (started : list (N * bool)) (done : list N) (steps : list ostep) : bool :=
  match steps with
  | [] => true
  | o :: r =>
      let t' := t + match os_ev o with ETick dt => Z.max 0 dt | _ => 0 end in
      let started' := match os_ev o with EStart id ign => (id, ign) :: started | _ => started end in
      let res := result_ids (os_acts o) in
      let done' := res ++ done in
      (* a success only for a response with that id, while pending *)
      forallb (fun a => match a with
                        | Result i ROk _ => match os_ev o with EResp j => (i =? j)%N | _ => false end
                        | Result i RErrClosed _ => match os_ev o with EClose => true | _ => false end
                        | _ => true end) (os_acts o) &&
      (* nothing is left behind: the table holds exactly the started, unfinished transactions *)
      (match os_ev o with
       | EClose => (os_size o =? 0)%N
       | _ => true end) &&
      (os_size o <=? N.of_nat (length (filter (fun p => negb (existsb (N.eqb (fst p)) done')) started')))%N &&
      holds_from rto t' started' done' r
  end.

Definition holds (c : case) : bool :=
  let acts := all_acts (c_steps c) in
  nodupN (result_ids acts) &&                                           (* completes at most once *)
  forallb (fun a => match a with
                    | Sent i k t => (Nat.ltb k max_rtx_count) &&            (* never an eighth transmission *)
                                    match start_of i acts with             (* on schedule *)
                                    | Some t0 => t =? send_time t0 (c_rto c) k
                                    | None => false end
                    | Result i RErrAllFailed t =>
                        match start_of i acts with Some t0 => t =? send_time t0 (c_rto c) max_rtx_count | None => false end
                    | _ => true end) acts &&
  holds_from (c_rto c) 0 [] [] (c_steps c).

Definition run (c : case) : verdict :=
  (agree_from (c_rto c) (wr_of (c_fail c)) init (c_steps c), holds c).
Definition bad_cases (base : N) (cs : list case) := bad_from run base cs.
