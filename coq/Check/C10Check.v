(* Correspondence runner for C10 (and the framing part of C09): stream framer of
   internal/proto/stun_conn.go and the ConnectionBind reply parsing of the client. *)
From Turn Require Export Bytes ChanData Attrs Framer Common.
Open Scope N_scope.

Inductive fr_obs := OFrOk (n : N) | OFrIncomplete | OFrInvalid | OFrOther.
Inductive end_obs := OEndInvalid | OEndEOF | OEndSpin | OEndOther.
Inductive bind_obs := OBindOk (rest : bytes) | OBindShort | OBindNotStun | OBindDecodeErr | OBindErrResp | OBindOther.

Inductive case :=
(* consumeSingleTURNFrame on one buffer *)
| KConsume (buf : bdesc) (res : fr_obs)
(* a stream cut into reads; [frames] = the well-formed frames it was built from ([] = hostile stream);
   observed: each frame returned with the number of Reads performed so far, and how the loop ended *)
| KStream (wf : bool) (frames : list bdesc) (reads : list bdesc) (got : list (bdesc * N)) (e : end_obs)
(* BindConnection reply: stream cut into reads *)
| KBind (reads : list bytes) (res : bind_obs)
(* bulk: a long stream of well-formed frames (up to the maximum frame sizes, megabytes in all) delivered in large reads
   (whole stream at once, 64 KiB reads, ...). Too large to evaluate inside Coq: the harness compares the frames returned with
   the frames it built - which is what the model returns for EVERY segmentation (C10_frames, C10_segmentation_independent) - and reports
   whether they are equal and how the loop ended *)
| KBulk (nframes total maxread : N) (equal : bool) (e : end_obs).

Fixpoint expand_all (l : list bdesc) : option (list bytes) :=
  match l with
  | [] => Some []
  | d :: r => match expand d, expand_all r with Some x, Some y => Some (x :: y) | _, _ => None end
  end.

(* read_all, also reporting how many reads had been consumed when each frame was returned *)
Fixpoint read_all_trace (fuel : nat) (total : nat) (reads : list bytes) (buf : bytes) : list (bytes * N) * rf_end :=
  match fuel with
  | O => ([], EndFuel)
  | S k =>
      match read_from reads buf with
      | (RfFrame f, buf', reads') =>
          let '(fs, e) := read_all_trace k total reads' buf' in ((f, N.of_nat (total - length reads')) :: fs, e)
      | (RfInvalid, _, _) => ([], EndInvalid)
      | (RfEOF, b, _) => ([], EndEOF b)
      end
  end.

Fixpoint got_eqb (a : list (bytes * N)) (b : list (bdesc * N)) : bool :=
  match a, b with
  | [], [] => true
  | (f, n) :: a', (d, m) :: b' => obeqb (expand d) f && (n =? m) && got_eqb a' b'
  | _, _ => false
  end.

Fixpoint frames_eqb (a : list bytes) (b : list (bdesc * N)) : bool :=
  match a, b with
  | [], [] => true
  | f :: a', (d, _) :: b' => obeqb (expand d) f && frames_eqb a' b'
  | _, _ => false
  end.

(* number of reads needed before the first k bytes of the stream have arrived *)
Fixpoint reads_needed (k : nat) (reads : list bytes) : N :=
  match k with
  | O => 0
  | S _ => match reads with
           | [] => 0
           | r :: rs => 1 + reads_needed (k - length r) rs
           end
  end.

(* each frame is returned during the read that delivers its last byte *)
Fixpoint timely (off : nat) (reads : list bytes) (fs : list bytes) (got : list (bdesc * N)) : bool :=
  match fs, got with
  | [], [] => true
  | f :: fs', (_, m) :: got' =>
      let off' := (off + length f)%nat in
      (reads_needed off' reads =? m) && timely off' reads fs' got'
  | _, _ => false
  end.

Fixpoint is_prefix (a b : bytes) : bool :=
  match a, b with
  | [], _ => true
  | x :: a', y :: b' => (x =? y) && is_prefix a' b'
  | _, [] => false
  end.

Definition frame_kind_ok (f : bytes) : bool :=
  match f with
  | b0 :: b1 :: _ => valid_chan (be16 b0 b1) || is_stun_msg f
  | _ => false
  end.

Definition run (c : case) : verdict :=
  match c with
  | KConsume bd res =>
      match expand bd with
      | None => (false, false)
      | Some b =>
          let m := consume b in
          let agree := match m, res with
                       | FrOk n, OFrOk n' => N.of_nat n =? n'
                       | FrIncomplete, OFrIncomplete | FrInvalid, OFrInvalid => true
                       | _, _ => false end in
          (* property: a success consumes between 1 and |b| bytes and only for bytes that can begin a frame *)
          let holds := match res with
                       | OFrOk n' => (1 <=? n') && (n' <=? lenN b) && frame_kind_ok b && agree
                       | OFrIncomplete | OFrInvalid => negb (match m with FrOk _ => true | _ => false end) || agree
                       | OFrOther => false end in
          (agree, holds)
      end
  | KStream wf fds rds got e =>
      match expand_all fds, expand_all rds with
      | Some fs, Some reads =>
          let total := length reads in
          let s := concat reads in
          let '(mfs, mend) := read_all_trace (S (length s)) total reads [] in
          let end_agree := match mend, e with
                           | EndInvalid, OEndInvalid | EndEOF _, OEndEOF => true | _, _ => false end in
          let agree := got_eqb mfs got && end_agree in
          let holds :=
            if wf then frames_eqb fs got && timely 0 reads fs got && match e with OEndEOF => true | _ => false end
            else (* hostile stream: progress, only frame-like data, nothing invented *)
              match e with OEndSpin | OEndOther => false | _ => true end &&
              forallb (fun '(d, _) => match expand d with Some f => (1 <=? lenN f) && frame_kind_ok f | None => false end) got &&
              match expand_all (map fst got) with Some gs => is_prefix (concat gs) s | None => false end in
          (agree, holds)
      | _, _ => (false, false)
      end
  | KBind reads res =>
      match bind_read reads, res with
      | BindMsg raw rest, OBindOk rest' => let ok := beqb (concat rest) rest' in (ok, ok)
      | BindMsg _ _, OBindDecodeErr | BindMsg _ _, OBindErrResp => (true, true)   (* content of the message: not framing *)
      | BindShort, OBindShort => (true, true)
      | BindNotStun, OBindNotStun => (true, true)
      | BindShort, OBindOther | BindNotStun, OBindOther | BindShort, OBindNotStun | BindNotStun, OBindShort => (false, true)
      | _, _ => (false, false)
      end
  | KBulk _ _ _ equal e => let ok := equal && match e with OEndEOF => true | _ => false end in (ok, ok)
  end.

Definition bad_cases (base : N) (cs : list case) := bad_from run base cs.
