(* Correspondence runner for C17 (lt_cred.go). Crypto is instantiated freely (terms) on the model
   side; the harness compares the real HMAC/MD5 outputs with its own computation and reports booleans. *)
From Turn Require Export Bytes LtCred Common.
Open Scope Z_scope.

Definition tagT := (bytes * bytes)%type.
Definition keyT := (bytes * bytes * bytes)%type.
Definition hm (s m : bytes) : tagT := (s, m).
Definition b64 (t : tagT) : bytes := fst t ++ [0%N] ++ snd t.
Definition mk (u r p : bytes) : keyT := (u, r, p).

Inductive case :=
(* generator: kind, now, duration, user part; observed username, password == b64(hmac(secret, username)) *)
| KGen (rest : bool) (now_ns dur_ns : Z) (user : bytes) (username : bytes) (pw_ok : bool)
(* handler at now_ns on a username: observed Some (user id, key == long-term key of (username, realm, expected password)) *)
| KHandle (rest : bool) (now_ns : Z) (username : bytes) (res : option (bytes * bool))
(* end to end: Allocate through a real server whose AuthHandler is the handler, signed with a password that is / is not the right one *)
| KE2E (rest : bool) (now_ns : Z) (username : bytes) (pw_correct : bool) (success : bool).

Definition model_handle (rest : bool) (now_ns : Z) (username : bytes) : option bytes :=
  match (if rest then handler_rest tagT keyT hm b64 mk now_ns [] username []
         else handler_plain tagT keyT hm b64 mk now_ns [] username []) with
  | Some (uid, _) => Some uid
  | None => None
  end.

Definition run (c : case) : verdict :=
  match c with
  | KGen rest now dur user username pw_ok =>
      let m := if rest then fst (gen_rest tagT hm b64 now dur [] user) else fst (gen_plain tagT hm b64 now dur []) in
      let ok := beqb m username && pw_ok in (ok, ok)
  | KHandle rest now username res =>
      let ok := match model_handle rest now username, res with
                | Some uid, Some (uid', key_ok) => beqb uid uid' && key_ok
                | None, None => true
                | _, _ => false end in (ok, ok)
  | KE2E rest now username pw_correct success =>
      let expect := match model_handle rest now username with Some _ => pw_correct | None => false end in
      let ok := Bool.eqb expect success in (ok, ok)
  end.
Definition bad_cases (base : N) (cs : list case) := bad_from run base cs.
