(* Correspondence runner for C14: timelines of a real client against a real server over virtual hours. *)
From Turn Require Export Bytes KeepAlive Common.
Open Scope Z_scope.

(* one driver's timeline: the instants (ns) at which the server processed a successful refresh of that
   piece of state (the first entry is its creation), the interval P and handler bound H assumed by the
   model, the server timeout T; plus what the harness saw of the data path and of Close *)
Inductive case :=
| KTimeline (kind : N) (P H T : Z) (arms : list Z) (until : Z)     (* state must live until [until] *)
| KFlow (minute : Z) (c2p p2c : bool)                               (* a probe datagram each way at that minute *)
| KClose (alloc_count_after : N) (refresh0_sent : bool).

Fixpoint gaps_within (bound : Z) (l : list Z) : bool :=
  match l with a :: ((b :: _) as r) => (b - a <=? bound) && gaps_within bound r | _ => true end.

Definition last_or (d : Z) (l : list Z) : Z := last l d.

Definition run (c : case) : verdict :=
  match c with
  | KTimeline _ P H T arms until =>
      (* the implementation obeys the model's cycle bound ... *)
      let agree := gaps_within (P + 2 * H) arms && (until - last_or 0 arms <=? P + 2 * H) in
      (* ... and, the property itself: never a deadline reached, up to the end of the run *)
      let holds := gaps_belowb T arms && (until <? last_or 0 arms + T) in
      (agree, holds)
  | KFlow _ a b => let ok := a && b in (ok, ok)
  | KClose n sent => let ok := (n =? 0)%N && sent in (ok, ok)
  end.
Definition bad_cases (base : N) (cs : list case) := bad_from run base cs.
