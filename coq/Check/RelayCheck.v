(* Correspondence runner shared by the properties decided on the Relay model
   (C01 C02 C03 C04 C05 C06 C07 C08 C15 C19): observed traces of the real turn.Server,
   step-by-step comparison with Model/Relay.v, and the projection used to compare. *)
From Turn Require Export Bytes ChanData Relay Common.
Open Scope Z_scope.

(* ---------- decidable equalities ---------- *)
Definition opt_eqb {A} (f : A -> A -> bool) (a b : option A) : bool :=
  match a, b with Some x, Some y => f x y | None, None => true | _, _ => false end.

Fixpoint list_eqb {A} (f : A -> A -> bool) (a b : list A) : bool :=
  match a, b with
  | [], [] => true
  | x :: a', y :: b' => f x y && list_eqb f a' b'
  | _, _ => false
  end.

Definition method_eqb (a b : method) : bool :=
  match a, b with
  | MAllocate, MAllocate | MRefresh, MRefresh | MCreatePerm, MCreatePerm | MChannelBind, MChannelBind
  | MBinding, MBinding | MConnect, MConnect | MConnBind, MConnBind | MSend, MSend | MData, MData => true
  | _, _ => false
  end.

Definition sattr_eqb (a b : sattr) : bool :=
  match a, b with
  | SRelayed x, SRelayed y => addr_eqb x y
  | SLifetime x, SLifetime y => x =? y
  | SMapped x, SMapped y => addr_eqb x y
  | SToken x, SToken y => (x =? y)%N
  | _, _ => false
  end.

Definition life_eqb (a b : lifecycle) : bool :=
  match a, b with
  | LAllocCreated c u r, LAllocCreated c' u' r' => addr_eqb c c' && (u =? u')%N && addr_eqb r r'
  | LAllocDeleted c u, LAllocDeleted c' u' => addr_eqb c c' && (u =? u')%N
  | LPermCreated c i, LPermCreated c' i' => addr_eqb c c' && (i =? i')%N
  | LPermDeleted c i, LPermDeleted c' i' => addr_eqb c c' && (i =? i')%N
  | LChanCreated c p n, LChanCreated c' p' n' => addr_eqb c c' && addr_eqb p p' && (n =? n')%N
  | LChanDeleted c p n, LChanDeleted c' p' n' => addr_eqb c c' && addr_eqb p p' && (n =? n')%N
  | _, _ => false
  end.

Definition action_eqb (a b : action) : bool :=
  match a, b with
  | Success d m t at_, Success d' m' t' at' => addr_eqb d d' && method_eqb m m' && (t =? t')%N && list_eqb sattr_eqb at_ at'
  | Error d m t c ch, Error d' m' t' c' ch' => addr_eqb d d' && method_eqb m m' && (t =? t')%N && (c =? c')%N && Bool.eqb ch ch'
  | DataInd d p x, DataInd d' p' x' => addr_eqb d d' && addr_eqb p p' && beqb x x'
  | ChanDataOut d n x, ChanDataOut d' n' x' => addr_eqb d d' && (n =? n')%N && beqb x x'
  | ToPeer r d x, ToPeer r' d' x' => addr_eqb r r' && addr_eqb d d' && beqb x x'
  | Life e, Life e' => life_eqb e e'
  | _, _ => false
  end.

(* multiset equality by counting *)
Section MSet.
  Context {A : Type} (eqb : A -> A -> bool).
  Definition count (x : A) (l : list A) : nat := length (filter (eqb x) l).
  Definition mset_eqb (a b : list A) : bool :=
    (length a =? length b)%nat && forallb (fun x => (count x a =? count x b)%nat) a.
End MSet.

(* ---------- observed state listing ---------- *)
Record obs_alloc := { oa_client : addr; oa_relay : addr; oa_perms : list N; oa_chans : list (N * addr) }.
Record ostep := { os_ev : event; os_acts : list action; os_allocs : list obs_alloc }.
Record rcase := { rc_cfg : config; rc_epoch : Z; rc_steps : list ostep }.

Definition chanpair_eqb (a b : N * addr) : bool := (fst a =? fst b)%N && addr_eqb (snd a) (snd b).
Definition obs_alloc_eqb (a b : obs_alloc) : bool :=
  addr_eqb (oa_client a) (oa_client b) && addr_eqb (oa_relay a) (oa_relay b) &&
  mset_eqb N.eqb (oa_perms a) (oa_perms b) && mset_eqb chanpair_eqb (oa_chans a) (oa_chans b).

Definition listing_of (s : state) : list obs_alloc :=
  map (fun a => {| oa_client := a_client a; oa_relay := a_relay a;
                   oa_perms := map p_ip (a_perms a);
                   oa_chans := map (fun c => (c_num c, c_peer c)) (a_chans a) |}) (allocs s).

Definition is_life (a : action) : bool := match a with Life _ => true | _ => false end.

(* one step agrees: lifecycle events as a multiset (timer order is not modelled), everything else in order *)
Definition step_agree (macts : list action) (s' : state) (o : ostep) : bool :=
  mset_eqb action_eqb (filter is_life macts) (filter is_life (os_acts o)) &&
  list_eqb action_eqb (filter (fun a => negb (is_life a)) macts) (filter (fun a => negb (is_life a)) (os_acts o)) &&
  mset_eqb obs_alloc_eqb (listing_of s') (os_allocs o).

(* index of the first disagreeing step, if any *)
Fixpoint first_disagree (cfg : config) (s : state) (i : N) (steps : list ostep) : option N :=
  match steps with
  | [] => None
  | o :: r =>
      let '(s', acts) := step cfg s (os_ev o) in
      if step_agree acts s' o then first_disagree cfg s' (i + 1)%N r else Some i
  end.

Definition agree (c : rcase) : bool :=
  match first_disagree (rc_cfg c) (init (rc_epoch c)) 0%N (rc_steps c) with None => true | Some _ => false end.

(* ---------- helpers for the property predicates over observed traces ---------- *)
Definition find_oalloc (c : addr) (l : list obs_alloc) : option obs_alloc :=
  find (fun a => addr_eqb (oa_client a) c) l.
Definition find_orelay (r : addr) (l : list obs_alloc) : option obs_alloc :=
  find (fun a => addr_eqb (oa_relay a) r) l.
Definition has_perm (i : N) (a : obs_alloc) : bool := existsb (N.eqb i) (oa_perms a).
Definition has_chan (n : N) (p : addr) (a : obs_alloc) : bool := existsb (chanpair_eqb (n, p)) (oa_chans a).
Definition chan_of_peer (p : addr) (a : obs_alloc) : option N :=
  match find (fun c => addr_eqb (snd c) p) (oa_chans a) with Some c => Some (fst c) | None => None end.

(* fold a per-step predicate along the trace, giving it the listing before the step *)
Fixpoint all_steps (f : list obs_alloc -> ostep -> bool) (before : list obs_alloc) (steps : list ostep) : bool :=
  match steps with
  | [] => true
  | o :: r => f before o && all_steps f (os_allocs o) r
  end.

(* short constructors used by the Go harness when it writes cases *)
Definition A (i p : N) : addr := {| ip := i; port := p |}.
Definition OA := Build_obs_alloc.
Definition OS := Build_ostep.
Definition RC := Build_rcase.

Definition run_with (chk : rcase -> bool) (c : rcase) : verdict := (agree c, chk c).

(* for debugging a disagreement: index of the step, what the model did, its listing afterwards *)
Fixpoint diagnose_from (cfg : config) (s : state) (i : N) (steps : list ostep)
  : option (N * event * list action * list obs_alloc * list action * list obs_alloc) :=
  match steps with
  | [] => None
  | o :: r =>
      let '(s', acts) := step cfg s (os_ev o) in
      if step_agree acts s' o then diagnose_from cfg s' (i + 1)%N r
      else Some (i, os_ev o, acts, listing_of s', os_acts o, os_allocs o)
  end.
Definition diagnose (c : rcase) := diagnose_from (rc_cfg c) (init (rc_epoch c)) 0%N (rc_steps c).
