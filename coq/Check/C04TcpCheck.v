(* C04 for the RFC 6062 part of the server: the TCP-relay harness (several allocations, Connect / inbound peer
   connections / ConnectionBind) is run against Model/TcpRelay.v, and on the observed trace alone:
   - every answer to a Connect goes to the 5-tuple that sent it, and no other event produces a Connect answer;
   - a ConnectionAttempt indication goes to the client that owns the relayed address the peer connected to;
   - an allocation that ends (or a Connect / inbound connection that is dropped) closes peer connections of its
     own relayed address only;
   - 446 "connection already exists" is justified only by a connection THIS allocation has had with that peer
     (dup_from): another 5-tuple's connections to the same peer never matter. *)
From Turn Require Export Bytes Relay TcpRelay Common RelayCheck RelayProps C16Check.
Open Scope Z_scope.

(* (client, relayed address) of the live allocations, in creation order *)
Fixpoint rfind_client (c : addr) (l : list (addr * addr)) : option addr :=
  match l with [] => None | p :: t => if addr_eqb (fst p) c then Some (snd p) else rfind_client c t end.
Fixpoint rfind_relay (r : addr) (l : list (addr * addr)) : option addr :=
  match l with [] => None | p :: t => if addr_eqb (snd p) r then Some (fst p) else rfind_relay r t end.
Fixpoint rremove (c : addr) (l : list (addr * addr)) : list (addr * addr) :=
  match l with [] => [] | p :: t => if addr_eqb (fst p) c then t else p :: rremove c t end.

Definition iso_act (relays : list (addr * addr)) (e : tevent) (a : taction) : bool :=
  match a, e with
  | TSuccess d _ _ _, TConnect c _ _ _ _ _ _ => addr_eqb d c
  | TError d _ _ _, TConnect c _ _ _ _ _ _ => addr_eqb d c
  | TSuccess _ _ _ _, _ => false
  | TError _ _ _ _, _ => false
  | TAttempt d _ _, TPeerConn relay _ _ => opt_eqb addr_eqb (rfind_relay relay relays) (Some d)
  | TAttempt _ _ _, _ => false
  | TPeerClosed rl _, TEnd c => opt_eqb addr_eqb (rfind_client c relays) (Some rl)
  | TPeerClosed rl _, TConnect c _ _ _ _ _ _ => opt_eqb addr_eqb (rfind_client c relays) (Some rl)
  | TPeerClosed rl _, TPeerConn relay _ _ => addr_eqb rl relay
  | _, _ => true
  end.

Definition relays_step (relays : list (addr * addr)) (e : tevent) : list (addr * addr) :=
  match e with
  | TAlloc c _ rl => match rfind_client c relays with Some _ => relays | None => relays ++ [(c, rl)] end
  | TEnd c => rremove c relays
  | _ => relays
  end.

Fixpoint iso_from (relays : list (addr * addr)) (steps : list tstep_obs) : bool :=
  match steps with
  | [] => true
  | o :: r => forallb (iso_act relays (ts_ev o)) (ts_acts o) && iso_from (relays_step relays (ts_ev o)) r
  end.

(* a ConnectionBind succeeds only for the user of the allocation the connection was announced to: another 5-tuple's user
   can never take over (send through, receive from) a peer connection of somebody else's relayed address. The bookkeeping
   (who owns which 5-tuple, which id was announced to whom) is the one of C16's predicate. *)
Definition own_binds (st : kst) (e : tevent) (acts : list taction) : bool :=
  forallb (fun a => match a, e with
     | TBindSuccess _ _ k, TConnBind _ _ au _ =>
         match ann_get k (k_ann st) with
         | Some (c, _) => match au, user_get c (k_users st) with Some u, Some u' => (u =? u')%N | _, _ => false end
         | None => false end
     | TBindSuccess _ _ _, _ => false
     | _, _ => true end) acts.
Fixpoint own_from (st : kst) (steps : list tstep_obs) : bool :=
  match steps with
  | [] => true
  | o :: r => own_binds st (ts_ev o) (ts_acts o) && own_from (snd (k_step st o)) r
  end.
Definition k_empty : kst :=
  {| k_now := 0; k_users := []; k_perms := []; k_ann := []; k_bound := []; k_gone := []; k_relays := []; k_open := [] |}.

Definition iso_holds (steps : list tstep_obs) : bool := iso_from [] steps && dup_from [] steps && own_from k_empty steps.

Definition case := C16Check.case.
Definition run (c : case) : verdict := (C16Check.agree_from tinit (tc_steps c), iso_holds (tc_steps c)).
Definition bad_cases (base : N) (cs : list case) := bad_from run base cs.
Definition diagnose (c : case) := C16Check.diagnose c.
