(* Correspondence runner for C09: byte-level decoding and dispatch of arbitrary datagrams by the
   server (HandleRequest) and the client (HandleInbound), and liveness after hostile input. *)
From Turn Require Export Bytes ChanData Attrs Framer StunMsg Common.
Open Scope N_scope.

Inductive dec_obs := DOk (ty : N) (tid : bytes) (attrs : list (N * bytes)) | DErr.
Inductive srv_obs :=
| OChanData          (* went down the ChannelData path (whatever that path then did) *)
| ODecodeFail | OUnhandled
| OUnknownAttrs (method : N) (tid : bytes)
| OHandler (responded : bool) (method : N) (tid : bytes)   (* a handler ran; if it answered: the answer's method and id *)
| OOther.

Inductive case :=
| KStunDecode (buf : bytes) (res : dec_obs)
| KSrv (buf : bytes) (res : srv_obs) (panicked : bool)
| KCli (from_stun_server : bool) (buf : bytes) (handled : bool) (err : bool) (panicked : bool)
(* hostile bytes delivered to a live endpoint, then a liveness probe from the same and from another party *)
| KLive (what : N) (buf : bytes) (panicked wedged : bool) (alive_same alive_other unchanged : bool).

Fixpoint attrs_eqb (a b : list (N * bytes)) : bool :=
  match a, b with
  | [], [] => true
  | (t, v) :: a', (t', v') :: b' => (t =? t') && beqb v v' && attrs_eqb a' b'
  | _, _ => false
  end.

Definition run (c : case) : verdict :=
  match c with
  | KStunDecode buf res =>
      let ok := match stun_decode buf, res with
                | Ok m, DOk ty tid attrs => (m_type m =? ty) && beqb (m_tid m) tid && attrs_eqb (m_attrs m) attrs
                | Err _, DErr => true
                | _, _ => false end in (ok, ok)
  | KSrv buf res panicked =>
      let agree := negb panicked &&
        match srv_dispatch buf, res with
        | SChanData _ _, OChanData => true
        | SDecodeFail, ODecodeFail => true
        | SUnhandled, OUnhandled => true
        | SUnknownAttrs m tid, OUnknownAttrs m' tid' => (m =? m') && beqb tid tid'
        | SHandler _ m tid, OHandler responded m' tid' => negb responded || ((m =? m') && beqb tid tid')
        | _, _ => false
        end in
      (* property: no panic, a documented classification, and an answer only with the request's own method and id *)
      let holds := negb panicked &&
        match res with
        | OOther => false
        | OUnknownAttrs m' tid' | OHandler true m' tid' =>
            match stun_decode buf with Ok m => (msg_method (m_type m) =? m') && beqb (m_tid m) tid' | _ => false end
        | _ => true
        end in
      (agree, holds)
  | KCli fs buf handled err panicked =>
      let c := cli_dispatch fs buf in
      let agree := negb panicked && Bool.eqb (cli_handled c) handled &&
        match c with
        | CStunDecodeErr | CStunRequestErr | CFromStunServerErr => err
        | CNotHandled | CStunResponse _ | CChanData _ _ => negb err   (* the harness client has no relayed socket: ChannelData is discarded silently *)
        | _ => true
        end in
      (* the documented table: never (not handled, error); and a well-formed ChannelData message (by the codec of C11,
         whatever its payload looks like) is handled as ChannelData, without an error *)
      let holds := negb panicked && negb (negb handled && err) &&
        (if is_channel_data buf then match cd_decode buf with CdOk _ _ => handled && negb err | CdErr _ => true end else true) in
      (agree, holds)
  | KLive _ _ panicked wedged a1 a2 unchanged =>
      let ok := negb panicked && negb wedged && a1 && a2 && unchanged in (ok, ok)
  end.
Definition bad_cases (base : N) (cs : list case) := bad_from run base cs.
