(* C03 on the RFC 6062 path (the multi-allocation TCP-relay histories of C16's harness): a ConnectionBind is honoured only
   for the user that owns the allocation the connection was announced to, only for an announced id, once, within 30 s; and
   a ConnectionBind that is refused - another user's valid credentials, an unknown id - changes nothing: the owner's own
   timely ConnectionBind still succeeds afterwards. The bookkeeping (who owns which 5-tuple, which id was announced to
   whom and when, which ids are bound) is the one of C16's predicate. *)
From Turn Require Export Bytes TcpRelay Common C16Check C04TcpCheck.
Open Scope Z_scope.

Fixpoint auth_from (st : kst) (steps : list tstep_obs) : bool :=
  match steps with
  | [] => true
  | o :: r =>
      let now' := k_time st (ts_ev o) in
      own_binds st (ts_ev o) (ts_acts o) && k_binds st now' (ts_ev o) (ts_acts o) &&
      k_owner_bind st now' (ts_ev o) (ts_acts o) && auth_from (snd (k_step st o)) r
  end.

Definition case := C16Check.case.
Definition run (c : case) : verdict := (C16Check.agree_from tinit (tc_steps c), auth_from k_empty (tc_steps c)).
Definition bad_cases (base : N) (cs : list case) := bad_from run base cs.
Definition diagnose (c : case) := C16Check.diagnose c.
