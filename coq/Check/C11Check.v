(* Correspondence runner for C11: ChannelData and attribute codecs against internal/proto. *)
From Turn Require Export Bytes ChanData Attrs Common.
Open Scope N_scope.

Inductive cd_obs := ObsOk (n : N) (d : bdesc) | ObsErr (e : cd_err) | ObsOther.

Inductive akind := AChanNum | ALifetime | AConnID | AReqTrans | AReqFamily | AEvenPort
                 | AToken | ADontFrag | AData | AXorPeer | AXorRelayed.
Inductive aval := VN (n : N) | VB (b : bool) | VBytes (b : bytes) | VAddr (ip : bytes) (port : N) | VUnit.
Inductive aobs := OVal (v : aval) | ORaw (b : bytes) | OErr (e : aerr) | OErrOther.

Inductive case :=
| KEnc (n plen pseed : N) (out : bdesc)
| KDec (raw : bdesc) (res : cd_obs)
| KIsCD (raw : bdesc) (res : bool)
| KAEnc (k : akind) (tid : bytes) (v : aval) (res : aobs)
| KADec (k : akind) (tid : bytes) (raw : bytes) (res : aobs).

Definition aval_eqb (a b : aval) : bool :=
  match a, b with
  | VN x, VN y => x =? y
  | VB x, VB y => Bool.eqb x y
  | VBytes x, VBytes y => beqb x y
  | VAddr i p, VAddr j q => beqb i j && (p =? q)
  | VUnit, VUnit => true
  | _, _ => false
  end.

Definition aerr_eqb (a b : aerr) : bool :=
  match a, b with
  | ESizeInvalid, ESizeInvalid | ESizeOverflow, ESizeOverflow | EEOF, EEOF
  | EBadFamily, EBadFamily | EBadValue, EBadValue | EBadIPLen, EBadIPLen => true
  | _, _ => false
  end.

Definition lift {A} (f : A -> aval) (r : ares A) : ares aval :=
  match r with AOk v => AOk (f v) | AErr e => AErr e end.

Definition model_enc (k : akind) (tid : bytes) (v : aval) : option (ares bytes) :=
  match k, v with
  | AChanNum, VN n => Some (AOk (enc_channum n))
  | ALifetime, VN n => Some (AOk (enc_lifetime n))
  | AConnID, VN n => Some (AOk (enc_connid n))
  | AReqTrans, VN n => Some (AOk (enc_reqtrans n))
  | AReqFamily, VN n => Some (AOk (enc_reqfamily n))
  | AEvenPort, VB b => Some (AOk (enc_evenport b))
  | AToken, VBytes t => Some (enc_token t)
  | ADontFrag, VUnit => Some (AOk enc_dontfrag)
  | AData, VBytes d => Some (AOk (enc_data d))
  | AXorPeer, VAddr ip p | AXorRelayed, VAddr ip p => Some (enc_xoraddr tid ip p)
  | _, _ => None
  end.

Definition model_dec (k : akind) (tid : bytes) (raw : bytes) : ares aval :=
  match k with
  | AChanNum => lift VN (dec_channum raw)
  | ALifetime => lift VN (dec_lifetime raw)
  | AConnID => lift VN (dec_connid raw)
  | AReqTrans => lift VN (dec_reqtrans raw)
  | AReqFamily => lift VN (dec_reqfamily raw)
  | AEvenPort => lift VB (dec_evenport raw)
  | AToken => lift VBytes (dec_token raw)
  | ADontFrag => lift (fun _ => VUnit) (dec_dontfrag raw)
  | AData => lift VBytes (dec_data raw)
  | AXorPeer | AXorRelayed => lift (fun '(ip, p) => VAddr ip p) (dec_xoraddr tid raw)
  end.

(* canonical value an encoded value must decode to *)
Definition canon_val (v : aval) : aval :=
  match v with
  | VAddr ip p => VAddr (if is_v4_mapped ip then skipn 12 ip else ip) p
  | _ => v
  end.

Definition all_zero (l : bytes) : bool := forallb (fun b => b =? 0) l.

Definition run (c : case) : verdict :=
  match c with
  | KEnc n plen pseed out =>
      let d := pat plen pseed in
      match expand out with
      | None => (false, false)
      | Some raw =>
          let agree := beqb raw (cd_encode n d) in
          let holds :=
            (lenN raw =? 4 + pad4 plen) &&
            match raw with
            | b0 :: b1 :: b2 :: b3 :: rest =>
                (be16 b0 b1 =? n) && (be16 b2 b3 =? plen) &&
                beqb (firstn (N.to_nat plen) rest) d && all_zero (skipn (N.to_nat plen) rest)
            | _ => false
            end &&
            match cd_decode raw with
            | CdOk n' d' => valid_chan n && (n' =? n) && beqb d' d
            | CdErr CdBadNumber => negb (valid_chan n)
            | CdErr _ => false
            end in
          (agree, holds)
      end
  | KDec rawd res =>
      match expand rawd with
      | None => (false, false)
      | Some raw =>
          match cd_decode raw, res with
          | CdOk n d, ObsOk n' dd => let ok := (n =? n') && obeqb (expand dd) d in (ok, ok)
          | CdErr e, ObsErr e' =>
              (match e, e' with CdEOF, CdEOF | CdBadNumber, CdBadNumber | CdBadLength, CdBadLength => true
                              | _, _ => false end, true)
          | CdErr _, ObsOther => (false, true)
          | _, _ => (false, false)
          end
      end
  | KIsCD rawd res =>
      match expand rawd with
      | None => (false, false)
      | Some raw => let ok := Bool.eqb (is_channel_data raw) res in (ok, ok)
      end
  | KAEnc k tid v res =>
      match model_enc k tid v, res with
      | Some (AOk raw), ORaw raw' =>
          let holds := match model_dec k tid raw' with
                       | AOk v' => aval_eqb v' (canon_val v) | AErr _ => false end in
          (beqb raw raw', holds)
      | Some (AErr e), OErr e' => (aerr_eqb e e', true)
      | Some (AErr _), OErrOther => (false, true)
      | _, _ => (false, false)
      end
  | KADec k tid raw res =>
      match model_dec k tid raw, res with
      | AOk v, OVal v' => let ok := aval_eqb v v' in (ok, ok)
      | AErr e, OErr e' => (aerr_eqb e e', true)
      | AErr _, OErrOther => (false, true)
      | _, _ => (false, false)
      end
  end.

Definition bad_cases (base : N) (cs : list case) := bad_from run base cs.
