(* Correspondence runner for C20: the three relay address generators against Model/PortRange.v. *)
From Turn Require Export Bytes PortRange Common.
Open Scope N_scope.

Inductive gobs := GOk (adv_ip adv_port sock_port : N) | GErr.
Record gstep_obs := { gs_ev : gev; gs_counts : list N; gs_obs : gobs }.
Record case := { gc_kind : gkind; gc_relay_ip : N; gc_sock_ip : N; gc_steps : list gstep_obs }.
Definition GS := Build_gstep_obs.
Definition GC := Build_case.

Fixpoint run_from (g : gkind) (rip sip : N) (l : list key) (steps : list gstep_obs) : bool * bool :=
  match steps with
  | [] => (true, true)
  | st :: r =>
      let '(l', res) := gstep g l (gs_ev st) in
      let counts_ok := match g with
                       | GRange minp maxp _ => forallb (fun c => c =? count16 minp maxp) (gs_counts st)
                       | _ => match gs_counts st with [] => true | _ => false end end in
      let agree := counts_ok &&
        match gs_ev st, res, gs_obs st with
        | GAlloc _ _ _ _ _, Some p, GOk ai ap sp => (ap =? p) && (sp =? p) && (ai =? advertised_ip g rip sip)
        | GAlloc _ _ _ _ _, None, GErr => true
        | GClose _, _, _ => true
        | _, _, _ => false
        end in
      let holds :=
        match gs_ev st, gs_obs st with
        | GAlloc t v rq _ _, GOk ai ap sp =>
            (ap =? sp) && (ai =? advertised_ip g rip sip) &&
            negb (in_use (t, v, ap) l) &&                                  (* not shared with a live allocation *)
            (if negb (rq =? 0) then ap =? rq
             else match g with GRange minp maxp _ => (minp <=? ap) && (ap <=? maxp) | _ => true end) &&
            forallb (fun c => 1 <=? c) (gs_counts st)
        | _, _ => true
        end in
      (* follow the implementation's own bookkeeping for what is live *)
      let l'' := match gs_ev st, gs_obs st with
                 | GAlloc t v _ _ _, GOk _ ap _ => (t, v, ap) :: l
                 | GAlloc _ _ _ _ _, GErr => l
                 | GClose _, _ => l' end in
      let '(a2, h2) := run_from g rip sip l'' r in
      (agree && a2, holds && h2)
  end.

Definition run (c : case) : verdict := run_from (gc_kind c) (gc_relay_ip c) (gc_sock_ip c) [] (gc_steps c).
Definition bad_cases (base : N) (cs : list case) := bad_from run base cs.
