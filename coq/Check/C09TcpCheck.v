(* C09 on the RFC 6062 path: well-formed but unusual request sequences (duplicate Connect, binds of unknown or foreign ids,
   connection-id collisions, dial failures, expiries) from authenticated clients never wedge the server: every request of
   the multi-allocation TCP-relay histories of C16's harness gets its answer (no step shows "the manager is wedged"), and
   the server keeps behaving as the model says afterwards (the correspondence; the harness's real-time watchdog reports a
   server that stops making progress). *)
From Turn Require Export Bytes TcpRelay Common C16Check.
Open Scope Z_scope.

Definition live_from (steps : list tstep_obs) : bool := forallb (fun o => k_noblock (ts_acts o)) steps.

Definition case := C16Check.case.
Definition run (c : case) : verdict := (C16Check.agree_from tinit (tc_steps c), live_from (tc_steps c)).
Definition bad_cases (base : N) (cs : list case) := bad_from run base cs.
Definition diagnose (c : case) := C16Check.diagnose c.
