(* The properties decided on the relay traces, as executable predicates over OBSERVED traces
   (what clients and peers received, the state listing, lifecycle callbacks).  They are evaluated on
   the implementation's traces by the correspondence run; Properties/*.v state the same facts about
   the model for all histories. *)
From Turn Require Export RelayCheck.
Open Scope Z_scope.

Definition topeers (l : list action) : list action := filter (fun a => match a with ToPeer _ _ _ => true | _ => false end) l.
Definition todata (l : list action) : list action :=
  filter (fun a => match a with DataInd _ _ _ | ChanDataOut _ _ _ => true | _ => false end) l.
Definition replies (l : list action) : list action :=
  filter (fun a => match a with Success _ _ _ _ | Error _ _ _ _ _ => true | _ => false end) l.
Definition lifes (l : list action) : list action := filter is_life l.

Definition oa_fam (a : obs_alloc) : N := fam_of (ip (oa_relay a)).

(* ---------- C01 ---------- *)
Definition installed_ok (cfg : config) (a : obs_alloc) : bool :=
  forallb (fun i => cfg_policy cfg (oa_client a) i && ip_matches_family i (oa_fam a)) (oa_perms a) &&
  forallb (fun c => cfg_policy cfg (oa_client a) (ip (snd c)) && ip_matches_family (ip (snd c)) (oa_fam a)) (oa_chans a).

Definition chk_C01_step (cfg : config) (before : list obs_alloc) (o : ostep) : bool :=
  forallb (installed_ok cfg) (os_allocs o) &&
  match os_ev o, topeers (os_acts o) with
  | _, [] => true
  | ESend src (Some (PeerOk p)) (Some d), [ToPeer r q x] =>
      match find_oalloc src before with
      | Some a => addr_eqb r (oa_relay a) && addr_eqb q p && beqb x d && has_perm (ip p) a
      | None => false
      end
  | EChanData src n d, [ToPeer r q x] =>
      match find_oalloc src before with
      | Some a => addr_eqb r (oa_relay a) && beqb x d && has_chan n q a
      | None => false
      end
  | _, _ => false
  end.
Definition chk_C01_gate (c : rcase) : bool := all_steps (chk_C01_step (rc_cfg c)) [] (rc_steps c).

(* ---------- C02 ---------- *)
Definition chk_C02_step (before : list obs_alloc) (o : ostep) : bool :=
  match os_ev o, todata (os_acts o) with
  | _, [] => true
  | EPeer relay from d, [DataInd dst p x] =>
      match find_orelay relay before with
      | Some a => addr_eqb dst (oa_client a) && addr_eqb p from && beqb x d && has_perm (ip from) a
      | None => false
      end
  | EPeer relay from d, [ChanDataOut dst n x] =>
      match find_orelay relay before with
      | Some a => addr_eqb dst (oa_client a) && beqb x d && has_chan n from a
      | None => false
      end
  | _, _ => false
  end.
Definition chk_C02_gate (c : rcase) : bool := all_steps chk_C02_step [] (rc_steps c).

(* ---------- C05: intact, exactly once, truthful; oversize dropped ---------- *)
Definition chk_C05_step (cfg : config) (before : list obs_alloc) (o : ostep) : bool :=
  chk_C01_step cfg before o && chk_C02_step before o &&
  match os_ev o with
  | EPeer _ _ d => if (rtp_mtu <? lenN d)%N then match todata (os_acts o) with [] => true | _ => false end else true
  | _ => true
  end &&
  (* ChannelData toward the client only carries numbers in range *)
  forallb (fun a => match a with ChanDataOut _ n _ => valid_chan n | _ => true end) (os_acts o).


(* ---------- C04 ---------- *)
Definition others (src : addr) (l : list obs_alloc) : list obs_alloc :=
  filter (fun a => negb (addr_eqb (oa_client a) src)) l.
Fixpoint nodupb {A} (eqb : A -> A -> bool) (l : list A) : bool :=
  match l with [] => true | x :: r => negb (existsb (eqb x) r) && nodupb eqb r end.

Definition to_client_dst (a : action) : option addr :=
  match a with
  | Success d _ _ _ | Error d _ _ _ _ | DataInd d _ _ | ChanDataOut d _ _ => Some d
  | _ => None
  end.

Definition chk_C04_step (before : list obs_alloc) (o : ostep) : bool :=
  nodupb addr_eqb (map oa_client (os_allocs o)) &&
  match os_ev o with
  | EReq src _ _ _ _ | ESend src _ _ | EChanData src _ _ =>
      mset_eqb obs_alloc_eqb (others src before) (others src (os_allocs o)) &&
      forallb (fun a => match to_client_dst a with Some d => addr_eqb d src | None => true end) (os_acts o) &&
      forallb (fun a => match a with
                        | ToPeer r _ _ => match find_oalloc src before with Some al => addr_eqb r (oa_relay al) | None => false end
                        | Life (LAllocCreated c _ _) | Life (LAllocDeleted c _) | Life (LPermCreated c _) | Life (LPermDeleted c _)
                        | Life (LChanCreated c _ _) | Life (LChanDeleted c _ _) => addr_eqb c src
                        | _ => true end) (os_acts o)
  | EPeer relay _ _ =>
      mset_eqb obs_alloc_eqb before (os_allocs o) &&
      forallb (fun a => match to_client_dst a with
                        | Some d => match find_orelay relay before with Some al => addr_eqb d (oa_client al) | None => false end
                        | None => match a with ToPeer _ _ _ => false | _ => true end end) (os_acts o)
  | ETick _ => forallb (fun a => is_life a) (os_acts o)
  | ERelayErr relay =>
      forallb (fun a => is_life a) (os_acts o) &&
      match find_orelay relay before with
      | Some al => mset_eqb obs_alloc_eqb (others (oa_client al) before) (others (oa_client al) (os_allocs o))
      | None => mset_eqb obs_alloc_eqb before (os_allocs o)
      end
  | ECtlClose src =>
      (* a control connection ending touches its own 5-tuple's allocation only *)
      forallb (fun a => is_life a) (os_acts o) &&
      mset_eqb obs_alloc_eqb (others src before) (others src (os_allocs o))
  | ESrvClose => forallb (fun a => is_life a) (os_acts o)
  | EDeadMsg => match os_acts o with [] => true | _ => false end && mset_eqb obs_alloc_eqb before (os_allocs o)
  end.
Definition chk_C04 (c : rcase) : bool := all_steps chk_C04_step [] (rc_steps c).

(* ---------- time bookkeeping for the history-level specs ---------- *)
Definition ev_dt (e : event) : Z := match e with ETick dt => Z.max 0 dt | _ => 0 end.

(* association lists keyed by a decidable key *)
Section Assoc.
  Context {K V : Type} (keqb : K -> K -> bool).
  Fixpoint aget (k : K) (l : list (K * V)) : option V :=
    match l with [] => None | (k', v) :: r => if keqb k k' then Some v else aget k r end.
  Fixpoint adel (k : K) (l : list (K * V)) : list (K * V) :=
    match l with [] => [] | (k', v) :: r => if keqb k k' then adel k r else (k', v) :: adel k r end.
  Definition aset (k : K) (v : V) (l : list (K * V)) : list (K * V) := (k, v) :: adel k l.
End Assoc.

Definition success_of (m : method) (acts : list action) : option (list sattr) :=
  match find (fun a => match a with Success _ m' _ _ => method_eqb m m' | _ => false end) acts with
  | Some (Success _ _ _ at_) => Some at_
  | _ => None
  end.
Definition lifetime_attr (l : list sattr) : option Z :=
  match find (fun a => match a with SLifetime _ => true | _ => false end) l with
  | Some (SLifetime s) => Some s | _ => None end.

Definition deleted_clients (acts : list action) : list addr :=
  flat_map (fun a => match a with Life (LAllocDeleted c _) => [c] | _ => [] end) acts.

(* "forwarded exactly once": when relaying is authorised by what exists before the event, and the datagram fits, it
   IS forwarded - one ToPeer for a Send/ChannelData, one Data indication or ChannelData for a peer datagram.
   [tcp]: clients whose allocation was requested with transport TCP (their relay does not carry datagrams). *)
Fixpoint chk_C05_live (cfg : config) (tcp : list addr) (before : list obs_alloc) (steps : list ostep) : bool :=
  match steps with
  | [] => true
  | o :: r =>
      let acts := os_acts o in
      let is_udp c := negb (existsb (addr_eqb c) tcp) in
      let tcp1 := match os_ev o with
                  | EReq src _ _ (RqAllocate (APresent 6%N) _ _ _ _ _ _ _) _ =>
                      match success_of MAllocate acts, find_oalloc src before with
                      | Some _, None => src :: tcp
                      | _, _ => tcp end
                  | _ => tcp end in
      let tcp2 := filter (fun c => match find_oalloc c (os_allocs o) with Some _ => true | None => false end) tcp1 in
      match os_ev o with
      | ESend src (Some (PeerOk p)) (Some d) =>
          match find_oalloc src before with
          | Some a => if has_perm (ip p) a && is_udp src && (send_wire_len p d <? cfg_mtu cfg)%N
                      then (length (topeers acts) =? 1)%nat else true
          | None => true end
      | EChanData src n d =>
          match find_oalloc src before with
          | Some a => if existsb (fun c => (fst c =? n)%N) (oa_chans a) && is_udp src && (chandata_wire_len d <? cfg_mtu cfg)%N
                      then (length (topeers acts) =? 1)%nat else true
          | None => true end
      | EPeer relay from d =>
          match find_orelay relay before with
          | Some a => if (has_perm (ip from) a || existsb (fun c => addr_eqb (snd c) from) (oa_chans a)) &&
                         is_udp (oa_client a) && (lenN d <=? rtp_mtu)%N
                      then (length (todata acts) =? 1)%nat else true
          | None => true end
      | _ => true
      end && chk_C05_live cfg tcp2 (os_allocs o) r
  end.
Definition chk_C05 (c : rcase) : bool :=
  all_steps (chk_C05_step (rc_cfg c)) [] (rc_steps c) && chk_C05_live (rc_cfg c) [] [] (rc_steps c).

(* ---------- C06: an allocation exists exactly until the last reported LIFETIME has elapsed ---------- *)
(* exp: client -> absolute expiry (ns) computed from the success responses alone *)
Definition c06_update (t : Z) (o : ostep) (exp : list (addr * Z)) : list (addr * Z) :=
  let exp1 :=
    match os_ev o with
    | EReq src _ _ (RqAllocate _ _ _ _ _ _ _ _) _ =>
        match success_of MAllocate (os_acts o), aget addr_eqb src exp with
        | Some at_, None => match lifetime_attr at_ with Some secs => aset addr_eqb src (t + secs * sec) exp | None => exp end
        | _, _ => exp     (* retransmission: same answer, timer untouched *)
        end
    | EReq src _ _ (RqRefresh _ _) _ =>
        match success_of MRefresh (os_acts o) with
        | Some at_ => match lifetime_attr at_ with
                      | Some secs => if secs =? 0 then adel addr_eqb src exp else aset addr_eqb src (t + secs * sec) exp
                      | None => exp end
        | None => exp
        end
    | ERelayErr _ | ECtlClose _ | ESrvClose => fold_right (fun c e => adel addr_eqb c e) exp (deleted_clients (os_acts o))
    | _ => exp
    end in
  filter (fun ce => t <? snd ce) exp1.

Fixpoint chk_C06_from (cfg : config) (t : Z) (exp : list (addr * Z)) (steps : list ostep) : bool :=
  match steps with
  | [] => true
  | o :: r =>
      let t' := t + ev_dt (os_ev o) in
      let exp' := c06_update t' o exp in
      (* the allocations that exist are exactly those whose reported lifetime has not elapsed *)
      mset_eqb addr_eqb (map fst exp') (map oa_client (os_allocs o)) &&
      (* the granted value follows the rule *)
      match os_ev o with
      | EReq src _ _ (RqAllocate _ lt _ _ _ _ _ _) _ =>
          match success_of MAllocate (os_acts o), aget addr_eqb src exp with
          | Some at_, None => opt_eqb Z.eqb (lifetime_attr at_) (Some (granted_lifetime cfg lt / sec))
          | _, _ => true end
      | EReq src _ _ (RqRefresh lt _) _ =>
          match success_of MRefresh (os_acts o) with
          | Some at_ => opt_eqb Z.eqb (lifetime_attr at_) (Some (granted_lifetime cfg lt / sec))
          | None => true end
      | _ => true
      end &&
      chk_C06_from cfg t' exp' r
  end.
Definition chk_C06 (c : rcase) : bool := chk_C06_from (rc_cfg c) 0 [] (rc_steps c).

(* ---------- C07: permissions and channels live one full timeout past their last successful refresh ---------- *)
Definition pkey := (addr * N)%type.          (* client, peer ip *)
Definition ckey := (addr * (N * addr))%type. (* client, (number, peer) *)
Definition pkey_eqb (a b : pkey) : bool := addr_eqb (fst a) (fst b) && (snd a =? snd b)%N.
Definition ckey_eqb (a b : ckey) : bool := addr_eqb (fst a) (fst b) && chanpair_eqb (snd a) (snd b).

Definition peer_ips (l : list peer_attr) : list N :=
  flat_map (fun p => match p with PeerOk a => [ip a] | PeerBad => [] end) l.

Definition c07_update (cfg : config) (t : Z) (o : ostep) (pe : list (pkey * Z)) (ce : list (ckey * Z))
  : list (pkey * Z) * list (ckey * Z) :=
  let gone := deleted_clients (os_acts o) ++
              match os_ev o with
              | EReq src _ _ (RqRefresh _ _) _ =>
                  match success_of MRefresh (os_acts o) with
                  | Some at_ => match lifetime_attr at_ with Some 0 => [src] | _ => [] end
                  | None => [] end
              | _ => [] end in
  let pe0 := filter (fun e => negb (existsb (addr_eqb (fst (fst e))) gone)) pe in
  let ce0 := filter (fun e => negb (existsb (addr_eqb (fst (fst e))) gone)) ce in
  let '(pe1, ce1) :=
    match os_ev o with
    | EReq src _ _ (RqCreatePerm peers) _ =>
        match success_of MCreatePerm (os_acts o) with
        | Some _ => (fold_right (fun i e => aset pkey_eqb (src, i) (t + cfg_perm_timeout cfg) e) pe0 (peer_ips peers), ce0)
        | None => (pe0, ce0)
        end
    | EReq src _ _ (RqChannelBind (APresent n) (Some (PeerOk p))) _ =>
        match success_of MChannelBind (os_acts o) with
        | Some _ => (aset pkey_eqb (src, ip p) (t + cfg_perm_timeout cfg) pe0,
                     aset ckey_eqb (src, (n, p)) (t + cfg_chan_timeout cfg) ce0)
        | None => (pe0, ce0)
        end
    | _ => (pe0, ce0)
    end in
  (filter (fun e => t <? snd e) pe1, filter (fun e => t <? snd e) ce1).

Fixpoint chk_C07_from (cfg : config) (t : Z) (pe : list (pkey * Z)) (ce : list (ckey * Z)) (steps : list ostep) : bool :=
  match steps with
  | [] => true
  | o :: r =>
      let t' := t + ev_dt (os_ev o) in
      let '(pe', ce') := c07_update cfg t' o pe ce in
      (* restrict the spec to clients that still have an allocation (C06 decides that) *)
      let livec k := existsb (fun a => addr_eqb (oa_client a) k) (os_allocs o) in
      let pe'' := filter (fun e => livec (fst (fst e))) pe' in
      let ce'' := filter (fun e => livec (fst (fst e))) ce' in
      mset_eqb pkey_eqb (map fst pe'') (flat_map (fun a => map (fun i => (oa_client a, i)) (oa_perms a)) (os_allocs o)) &&
      mset_eqb ckey_eqb (map fst ce'') (flat_map (fun a => map (fun c => (oa_client a, c)) (oa_chans a)) (os_allocs o)) &&
      chk_C07_from cfg t' pe'' ce'' r
  end.
Definition chk_C07 (c : rcase) : bool := chk_C07_from (rc_cfg c) 0 [] [] (rc_steps c).

(* C01 / C02 in full: the gate (data moves only through a permission/binding that is PRESENT) together
   with "present = unexpired by the lifetimes the server reported" (the C06 and C07 specifications) *)
Definition chk_C01 (c : rcase) : bool := chk_C01_gate c && chk_C06 c && chk_C07 c.
Definition chk_C02 (c : rcase) : bool := chk_C02_gate c && chk_C06 c && chk_C07 c.

(* ---------- C08 ---------- *)
Definition bijective (a : obs_alloc) : bool :=
  nodupb N.eqb (map fst (oa_chans a)) && nodupb addr_eqb (map snd (oa_chans a)) &&
  forallb (fun c => valid_chan (fst c)) (oa_chans a).

Definition chk_C08_step (before : list obs_alloc) (o : ostep) : bool :=
  forallb bijective (os_allocs o) &&
  forallb (fun a => match a with ChanDataOut _ n _ => valid_chan n | _ => true end) (os_acts o) &&
  match os_ev o with
  | EReq src tid _ (RqChannelBind (APresent n) (Some (PeerOk p))) false =>
      match find_oalloc src before with
      | Some a =>
          let conflict := existsb (fun c => ((fst c =? n)%N && negb (addr_eqb (snd c) p)) ||
                                            (negb (fst c =? n)%N && addr_eqb (snd c) p)) (oa_chans a) in
          let answered := match replies (os_acts o) with [] => false | _ => true end in
          if conflict && answered then
            (* rejected, and nothing changed *)
            match replies (os_acts o) with
            | [Error _ MChannelBind _ code _] =>
                negb (code =? 0)%N && mset_eqb obs_alloc_eqb before (os_allocs o) &&
                match lifes (os_acts o) with [] => true | _ => false end
            | _ => false end
          else if negb (valid_chan n) && answered then
            match replies (os_acts o) with [Error _ MChannelBind _ _ _] => mset_eqb obs_alloc_eqb before (os_allocs o) | _ => false end
          else true
      | None => true
      end
  | _ => true
  end.
Definition chk_C08_bij (c : rcase) : bool := all_steps chk_C08_step [] (rc_steps c).
(* "repeating an existing binding succeeds and refreshes it": a binding exists exactly until one channel timeout after the
   last successful ChannelBind for it - the channel half of the C07 specification, recomputed from the responses alone *)
(* emission: ChannelData toward the client carries a number that is bound, in the state before the datagram arrived, to
   exactly the peer the datagram came from (never a stale, foreign or out-of-range number) *)
Definition chk_C08_emit_step (before : list obs_alloc) (o : ostep) : bool :=
  match os_ev o with
  | EPeer relay from _ =>
      forallb (fun a => match a with
                        | ChanDataOut _ n _ => match find_orelay relay before with Some al => has_chan n from al | None => false end
                        | _ => true end) (os_acts o)
  | _ => forallb (fun a => match a with ChanDataOut _ _ _ => false | _ => true end) (os_acts o)
  end.
Definition chk_C08_emit (c : rcase) : bool := all_steps chk_C08_emit_step [] (rc_steps c).
Definition chk_C08 (c : rcase) : bool := chk_C08_bij c && chk_C07 c && chk_C08_emit c.

(* ---------- C15: lifecycle callbacks balance against what exists ---------- *)
Definition count_life (f : lifecycle -> bool) (acts : list action) : Z :=
  Z.of_nat (length (filter (fun a => match a with Life e => f e | _ => false end) acts)).

(* a control connection that ends takes its allocation with it; once the server is closed nothing remains
   and nothing happens any more *)
Definition ended_ok (e : event) (acts : list action) (l : list obs_alloc) : bool :=
  match e with
  | ESrvClose => match l with [] => true | _ => false end
  | ECtlClose src => negb (existsb (fun a => addr_eqb (oa_client a) src) l)
  | EDeadMsg => match acts with [] => true | _ => false end    (* a closed server does nothing at all *)
  | _ => true
  end.

Fixpoint chk_C15_from (na np nc : Z) (steps : list ostep) : bool :=
  match steps with
  | [] => true
  | o :: r =>
      let acts := os_acts o in
      let na' := na + count_life (fun e => match e with LAllocCreated _ _ _ => true | _ => false end) acts
                    - count_life (fun e => match e with LAllocDeleted _ _ => true | _ => false end) acts in
      let np' := np + count_life (fun e => match e with LPermCreated _ _ => true | _ => false end) acts
                    - count_life (fun e => match e with LPermDeleted _ _ => true | _ => false end) acts in
      let nc' := nc + count_life (fun e => match e with LChanCreated _ _ _ => true | _ => false end) acts
                    - count_life (fun e => match e with LChanDeleted _ _ _ => true | _ => false end) acts in
      (na' =? Z.of_nat (length (os_allocs o))) &&
      (np' =? Z.of_nat (length (flat_map oa_perms (os_allocs o)))) &&
      (nc' =? Z.of_nat (length (flat_map oa_chans (os_allocs o)))) &&
      ended_ok (os_ev o) (os_acts o) (os_allocs o) &&
      chk_C15_from na' np' nc' r
  end.
Definition chk_C15 (c : rcase) : bool := chk_C15_from 0 0 0 (rc_steps c).

(* ---------- C19 ---------- *)
Definition mapped_attr (l : list sattr) : option addr :=
  match find (fun a => match a with SMapped _ => true | _ => false end) l with Some (SMapped a) => Some a | _ => None end.
Definition relayed_attr (l : list sattr) : option addr :=
  match find (fun a => match a with SRelayed _ => true | _ => false end) l with Some (SRelayed a) => Some a | _ => None end.

Definition chk_C19_step (before : list obs_alloc) (o : ostep) : bool :=
  match os_ev o with
  | EReq src tid _ r unk =>
      (* correlated: at most one answer, to the source, with the request's id and method *)
      match replies (os_acts o) with
      | [] => true
      | [Success d m t at_] =>
          addr_eqb d src && (t =? tid)%N && method_eqb m (req_method r) &&
          match r with
          | RqBinding => opt_eqb addr_eqb (mapped_attr at_) (Some src)
          | RqAllocate _ _ _ _ _ _ _ _ =>
              opt_eqb addr_eqb (mapped_attr at_) (Some src) &&
              match relayed_attr at_, find_oalloc src (os_allocs o) with
              | Some ra, Some al =>
                  addr_eqb ra (oa_relay al) &&
                  (* no other live allocation has it *)
                  (length (filter (fun x => addr_eqb (oa_relay x) ra) (os_allocs o)) =? 1)%nat &&
                  (* retransmission: nothing created *)
                  match find_oalloc src before with
                  | Some _ => mset_eqb obs_alloc_eqb before (os_allocs o) && match lifes (os_acts o) with [] => true | _ => false end
                  | None => true end
              | _, _ => false end
          | _ => true
          end
      | [Error d m t code _] =>
          addr_eqb d src && (t =? tid)%N && method_eqb m (req_method r) &&
          (* 437 changes nothing *)
          (if (code =? 437)%N then mset_eqb obs_alloc_eqb before (os_allocs o) && match lifes (os_acts o) with [] => true | _ => false end
           else true) &&
          (* an Allocate on a 5-tuple that holds an allocation is refused with 437 - or with what authentication or an unknown
             comprehension-required attribute alone decide (C03 pins those down): never with anything else *)
          match r with
          | RqAllocate _ _ _ _ _ _ _ _ =>
              match find_oalloc src before with
              | Some _ => (code =? 437)%N || (code =? 400)%N || (code =? 401)%N || (code =? 438)%N || (unk && (code =? 420)%N)
              | None => true end
          | _ => true end
      | _ => false
      end
  | _ => match replies (os_acts o) with [] => true | _ => false end
  end.
(* "a retransmitted Allocate gets the same success again": the attributes of an Allocate success answered while the
   client's allocation already exists equal those of the success that created it *)
Fixpoint chk_C19_cache (seen : list (addr * list sattr)) (before : list obs_alloc) (steps : list ostep) : bool :=
  match steps with
  | [] => true
  | o :: r =>
      let seen1 := filter (fun p => match find_oalloc (fst p) before with Some _ => true | None => false end) seen in
      match os_ev o, replies (os_acts o) with
      | EReq src _ _ (RqAllocate _ _ _ _ _ _ _ _) _, [Success _ MAllocate _ at_] =>
          match find_oalloc src before, aget addr_eqb src seen1 with
          | Some _, Some first => list_eqb sattr_eqb first at_ && chk_C19_cache seen1 (os_allocs o) r
          | Some _, None => chk_C19_cache seen1 (os_allocs o) r     (* created before the observation started *)
          | None, _ => chk_C19_cache (aset addr_eqb src at_ seen1) (os_allocs o) r
          end
      | _, _ => chk_C19_cache seen1 (os_allocs o) r
      end
  end.
Definition chk_C19 (c : rcase) : bool := all_steps chk_C19_step [] (rc_steps c) && chk_C19_cache [] [] (rc_steps c).

(* ---------- C03 ---------- *)
(* owners from the lifecycle callbacks; time from the ticks; the credential descriptor decides *)
Definition owners_update (acts : list action) (ow : list (addr * N)) : list (addr * N) :=
  fold_left (fun w a => match a with
                        | Life (LAllocCreated c u _) => aset addr_eqb c u w
                        | Life (LAllocDeleted c _) => adel addr_eqb c w
                        | _ => w end) acts ow.

Fixpoint chk_C03_from (cfg : config) (ep : Z) (t : Z) (ow : list (addr * N)) (before : list obs_alloc) (steps : list ostep) : bool :=
  match steps with
  | [] => true
  | o :: r =>
      let t' := t + ev_dt (os_ev o) in
      let st := {| now := t'; epoch_min := ep; allocs := []; rsvs := [] |} in
      let unchanged := mset_eqb obs_alloc_eqb before (os_allocs o) &&
                       match lifes (os_acts o) with [] => true | _ => false end in
      match os_ev o with
      | EReq src tid c rq false =>
          match rq with
          | RqBinding => true
          | _ =>
              match authenticate cfg st c with
              | AuthOK uid =>
                  match rq, aget addr_eqb src ow with
                  | RqAllocate _ _ _ _ _ _ _ _, _ => true
                  | _, Some u => if (u =? uid)%N then true
                                 else unchanged && match os_acts o with [] => true | _ => false end
                  | _, None => unchanged
                  end
              | AuthReply code ch =>
                  unchanged &&
                  match os_acts o with
                  | [Error d m t2 code' ch'] =>
                      addr_eqb d src && (t2 =? tid)%N && method_eqb m (req_method rq) && (code' =? code)%N && Bool.eqb ch ch' &&
                      (* only 401/438 are challenges, and they always are *)
                      Bool.eqb ch' ((code' =? 401)%N || (code' =? 438)%N)
                  | _ => false end
              end
          end
      | _ => true
      end && chk_C03_from cfg ep t' (owners_update (os_acts o) ow) (os_allocs o) r
  end.
Definition chk_C03 (c : rcase) : bool := chk_C03_from (rc_cfg c) (rc_epoch c) 0 [] [] (rc_steps c).
